"""Runner: shards a property's exploration over worker processes, collects failures
without stopping at the first one, buckets them by root cause, shrinks one case per
bucket with Hypothesis, writes the replay file, re-executes it without Hypothesis and
only then reports a VIOLATION. Writes evidence/<id>.json on every run.

Exit codes: 0 held on everything explored; 1 violation (not a listed known finding);
2 harness error (never reported as a violation).
"""
import collections
import importlib
import json
import math
import os
import sys
import time
import traceback
import hashlib

ROOT = os.path.dirname(os.path.dirname(os.path.abspath(__file__)))
LOGDIR = os.environ.get("SYNVERIF_LOGDIR", "/var/tmp/synverif-logs")


def jsonable(x):
    if isinstance(x, float) and (math.isnan(x) or math.isinf(x)):
        return {"__float__": repr(x)}
    if isinstance(x, dict):
        return {str(k): jsonable(v) for k, v in x.items()}
    if isinstance(x, (list, tuple)):
        return [jsonable(v) for v in x]
    if isinstance(x, (str, int, float, bool)) or x is None:
        return x
    if isinstance(x, (set, frozenset)):
        return sorted(jsonable(v) for v in x)
    try:
        import numpy as np
        if isinstance(x, np.generic):
            return jsonable(x.item())
    except Exception:
        pass
    return repr(x)


def unjson(x):
    if isinstance(x, dict):
        if set(x.keys()) == {"__float__"}:
            return float(x["__float__"])
        return {k: unjson(v) for k, v in x.items()}
    if isinstance(x, list):
        return [unjson(v) for v in x]
    return x


def case_key(case):
    return hashlib.sha1(json.dumps(jsonable(case), sort_keys=True).encode()).hexdigest()[:16]


class CaseResult:
    """Outcome of checking one generated case."""

    __slots__ = ("failures", "nontrivial", "classes", "inconclusive", "evals", "nt_keys")

    def __init__(self):
        self.failures = []      # list of dict(bucket=..., clause=..., detail=...)
        self.nontrivial = False
        self.classes = []       # labels for the class histogram
        self.inconclusive = None  # reason string when the case cannot be judged
        self.evals = 1          # number of oracle evaluations this case stands for
        self.nt_keys = []       # extra distinct non-trivial sub-case keys

    def fail(self, bucket, clause, **detail):
        self.failures.append({"bucket": bucket, "clause": clause, "detail": jsonable(detail)})

    def tag(self, *labels):
        self.classes.extend(labels)


class StopShard(Exception):
    """raised by ShardResult.add during a history replay once the prefix has been executed"""


class ShardResult:
    def __init__(self, name):
        self.name = name
        self.cases = 0
        self.evaluations = 0
        self.nt_keys = set()
        self.classes = collections.Counter()
        self.inconclusive = collections.Counter()
        self.failures = []   # dict(bucket, clause, detail, case, index, shard)
        self.samples = []
        self.exhaustive = None
        self.extra = {}
        self.wall = 0.0
        self.stop_after = None   # history replay: stop generating after this case index (Hypothesis shards)
        self.stop_after_seq = None   # history replay: stop after this many cases (any shard kind)

    def add(self, case, res, index):
        if self.stop_after_seq is not None and self.cases >= self.stop_after_seq:
            raise StopShard()
        self.cases += 1
        self.evaluations += res.evals
        for c in res.classes:
            self.classes[c] += 1
        if res.inconclusive:
            self.inconclusive[res.inconclusive] += 1
        if res.nontrivial:
            self.nt_keys.add(case_key(case))
        for k in res.nt_keys:
            self.nt_keys.add(k)
        for f in res.failures:
            if len(self.failures) < 400:
                g = dict(f)
                g["case"] = jsonable(case)
                g["index"] = index
                g["seq"] = self.cases          # 1-based position of the case in this shard's sequence
                g["shard"] = self.name
                self.failures.append(g)
        if (res.nontrivial or res.nt_keys) and len(self.samples) < 3:
            self.samples.append(jsonable(case))

    def to_dict(self):
        return {
            "name": self.name, "cases": self.cases, "evaluations": self.evaluations,
            "nt_keys": sorted(self.nt_keys), "classes": dict(self.classes),
            "inconclusive": dict(self.inconclusive), "failures": self.failures,
            "samples": self.samples, "exhaustive": self.exhaustive, "extra": self.extra,
            "wall": self.wall,
        }


# --------------------------------------------------------------- hypothesis glue

def hyp_settings(max_examples, shrink=False):
    from hypothesis import settings, HealthCheck, Phase
    phases = [Phase.generate] + ([Phase.shrink] if shrink else [])
    return settings(max_examples=max_examples, deadline=None, database=None,
                    derandomize=False, phases=phases, report_multiple_bugs=False,
                    suppress_health_check=list(HealthCheck), print_blob=False)


def explore(shard, strategy, check_case, max_examples, seed, budget_s=None):
    """Collect-mode search: every generated case is judged, failures are recorded,
    the search goes on. budget_s only ends the search early ('budget reached')."""
    from hypothesis import given, seed as hseed
    t0 = time.time()
    state = {"i": 0, "stop": False}

    @hseed(seed)
    @hyp_settings(max_examples)
    @given(strategy)
    def run(case):
        i = state["i"]
        state["i"] += 1
        if state["stop"]:
            return
        stop_after = getattr(shard, "stop_after", None)
        if stop_after is not None and i > stop_after:
            state["stop"] = True
            return
        if budget_s is not None and time.time() - t0 > budget_s:
            state["stop"] = True
            shard.extra["budget_reached_at_case"] = i
            return
        res = check_case(case)
        shard.add(case, res, i)

    run()
    return shard


def shrink(strategy, check_case, bucket, seed, fail_index, max_examples, cap_s=60):
    """Second, short Hypothesis run whose assertion is 'no failure in this bucket'.
    Examples before fail_index are skipped (they passed in the collect run, and the
    generated sequence is a function of seed + earlier outcomes). Returns the
    smallest failing case found, or None."""
    from hypothesis import given, seed as hseed
    t0 = time.time()
    state = {"i": 0, "best": None, "seen": {}}

    class Found(Exception):
        pass

    @hseed(seed)
    @hyp_settings(max_examples, shrink=True)
    @given(strategy)
    def run(case):
        i = state["i"]
        state["i"] += 1
        if state["best"] is None and i < fail_index:
            return
        k = case_key(case)
        if k in state["seen"]:
            failing = state["seen"][k]
        elif state["best"] is not None and time.time() - t0 > cap_s:
            failing = False  # cap reached: stop exploring new candidates
        else:
            res = check_case(case)
            failing = any(f["bucket"] == bucket for f in res.failures)
            state["seen"][k] = failing
        if failing:
            state["best"] = jsonable(case)
            raise Found()

    try:
        run()
    except Found:
        pass
    except Exception:
        traceback.print_exc()
    return state["best"]


# ------------------------------------------------------------------- worker side

def _quiet():
    import logging
    import warnings
    warnings.filterwarnings("ignore")
    logging.disable(logging.CRITICAL)
    os.makedirs(LOGDIR, exist_ok=True)


def _worker(args):
    prop_id, spec, seed, tier, mode, extra = args
    _quiet()
    # stderr noise of joblib workers / rdkit goes to a log file, never to stdout
    try:
        log = open(os.path.join(LOGDIR, "%s-%s.log" % (prop_id, spec["name"].replace("/", "_"))), "w")
        os.dup2(log.fileno(), 2)
        os.dup2(log.fileno(), 1)   # code under test print()s; results travel through the pool pipe, not stdout
    except Exception:
        pass
    t0 = time.time()
    try:
        mod = importlib.import_module("synverif.props.%s" % prop_id.lower())
        if mode == "explore":
            shard = ShardResult(spec["name"])
            mod.run_shard(spec, seed, tier, shard)
            shard.wall = time.time() - t0
            return ("ok", shard.to_dict())
        elif mode == "prefix":
            # history replay: regenerate the shard's cases 0..index in a fresh process (same seed => same sequence) to
            # see whether a failure that does not reproduce on its own depends on the calls made before it
            shard = ShardResult(spec["name"])
            shard.stop_after = extra["index"]
            shard.stop_after_seq = extra.get("seq")
            try:
                mod.run_shard(spec, seed, tier, shard)
            except StopShard:
                pass
            hits = [f for f in shard.failures if f["bucket"] == extra["bucket"] and f["index"] == extra["index"]]
            return ("ok", hits)
        elif mode == "shrink":
            best = mod.shrink_shard(spec, seed, tier, extra["bucket"], extra["index"], extra["cap_s"])
            return ("ok", best)
        elif mode == "replay":
            fails = mod.replay(unjson(extra["case"]), spec)
            return ("ok", fails)
    except BaseException:
        return ("error", "shard %s: %s" % (spec.get("name"), traceback.format_exc()))
    finally:
        _stop_loky()


def _stop_loky():
    """joblib's reusable loky executor keeps idle workers for 300 s; a (non-daemonic) pool worker would wait for
    them at exit. Kill them as soon as the shard is done."""
    try:
        mod = sys.modules.get("joblib.externals.loky.reusable_executor")
        ex = getattr(mod, "_executor", None) if mod is not None else None
        if ex is not None:
            ex.shutdown(wait=True, kill_workers=True)
    except Exception:
        pass


class _Pool:
    """spawn-context process pool whose workers are NOT daemonic: joblib silently falls back to n_jobs=1 inside a
    daemonic process (multiprocessing.Pool workers are), which would make every 'worker count' shard sequential."""

    def __init__(self, n):
        import concurrent.futures as cf
        import multiprocessing as mp
        self.ex = cf.ProcessPoolExecutor(max_workers=n, mp_context=mp.get_context("spawn"), max_tasks_per_child=1)

    def __enter__(self):
        return self

    def __exit__(self, *a):
        self.ex.shutdown(wait=True, cancel_futures=True)

    def imap_unordered(self, fn, jobs):
        import concurrent.futures as cf
        futs = [self.ex.submit(fn, j) for j in jobs]
        for f in cf.as_completed(futs):
            try:
                yield f.result()
            except BaseException as e:   # a worker process died
                yield ("error", "worker process failed: %r" % (e,))

    def apply(self, fn, args):
        try:
            return self.ex.submit(fn, *args).result()
        except BaseException as e:
            return ("error", "worker process failed: %r" % (e,))


def _pool(n):
    return _Pool(n)


# --------------------------------------------------------------------- main side

def load_known(prop_id):
    path = os.path.join(ROOT, "known_findings.json")
    if not os.path.exists(path):
        return []
    with open(path) as f:
        data = json.load(f)
    return [e for e in data.get("findings", []) if e.get("property") == prop_id]


def match_known(mod, known, failure):
    preds = getattr(mod, "KNOWN_PREDICATES", {})
    for e in known:
        if e.get("status") != "known":
            continue  # 'fixed' entries suppress nothing
        p = preds.get(e.get("predicate"))
        if p is None:
            continue
        try:
            if p(failure):
                return e
        except Exception:
            continue
    return None


def write_evidence(prop_id, mod, tier, seed, shards, wall, violations, known_hits, notes):
    evaluations = sum(s["evaluations"] for s in shards)
    nt = set()
    for s in shards:
        nt.update(s["name"].split(":")[0] + "/" + k for k in s["nt_keys"])
    classes = collections.Counter()
    inconc = collections.Counter()
    samples = []
    for s in shards:
        classes.update(s["classes"])
        inconc.update(s["inconclusive"])
    seen_kinds = set()
    for rnd in range(3):
        for s in shards:  # round-robin over shard kinds so the samples show every sub-domain
            kind = s["name"].split(":")[0]
            if rnd == 0 and kind in seen_kinds:
                continue
            if len(s["samples"]) > rnd and len(samples) < 12:
                seen_kinds.add(kind)
                samples.append({"shard": s["name"], "case": s["samples"][rnd]})
    exhaustive_parts = {s["name"]: s["exhaustive"] for s in shards if s["exhaustive"] is not None}
    cov = {
        "evaluations": int(evaluations),
        "distinct_nontrivial": len(nt),
        "rule": mod.RULE,
        "samples": samples,
        "cases_generated": int(sum(s["cases"] for s in shards)),
        "class_histogram": dict(sorted(classes.items(), key=lambda kv: (-kv[1], kv[0]))),
        "inconclusive": dict(inconc),
        "shards": [{"name": s["name"], "cases": s["cases"], "evaluations": s["evaluations"],
                    "nontrivial": len(s["nt_keys"]), "wall_s": round(s["wall"], 1),
                    **({"extra": s["extra"]} if s["extra"] else {})} for s in shards],
        "known_finding_hits": known_hits,
        "exhaustive": bool(exhaustive_parts) and all(exhaustive_parts.values()) and len(exhaustive_parts) == len(shards),
        "exhaustive_subdomains": exhaustive_parts,
    }
    if notes:
        cov["notes"] = notes
    extra = getattr(mod, "evidence_extra", None)
    if extra is not None:
        try:
            cov.update(extra(dict(classes)))
        except Exception as e:   # never let reporting sugar break a check
            cov["evidence_extra_error"] = repr(e)
    ev = {
        "property_id": prop_id, "tier": tier, "seed": int(seed), "level": mod.LEVEL,
        "coverage": cov, "assumptions": list(mod.ASSUMPTIONS), "wall_s": round(wall, 2),
        "violations": int(violations),
    }
    os.makedirs(os.path.join(ROOT, "evidence"), exist_ok=True)
    tmp = os.path.join(ROOT, "evidence", "%s.json.tmp" % prop_id)
    with open(tmp, "w") as f:
        json.dump(ev, f, indent=1, sort_keys=False)
    os.replace(tmp, os.path.join(ROOT, "evidence", "%s.json" % prop_id))


def run_property(prop_id, tier, seed, only_shards=None, procs=None):
    t0 = time.time()
    mod = importlib.import_module("synverif.props.%s" % prop_id.lower())
    specs = mod.shards(tier)
    if only_shards:
        specs = [s for s in specs if any(s["name"].startswith(o) for o in only_shards)]
    for i, s in enumerate(specs):
        s.setdefault("seed_offset", i)
    # SYNVERIF_SCALE=<f>: scale the number of generated cases per Hypothesis shard (smoke-testing a tier quickly;
    # registered commands never set it)
    scale = float(os.environ.get("SYNVERIF_SCALE") or 1)
    if scale != 1:
        for s in specs:
            if "examples" in s:
                s["examples"] = max(5, int(s["examples"] * scale))
    procs = procs or min(16, max(1, sum(s.get("procs", 1) for s in specs)))
    nproc = max(1, min(16, len(specs)))
    # long shards first so the pool drains evenly
    specs_sorted = sorted(specs, key=lambda s: -s.get("weight", s.get("examples", 100) * s.get("procs", 1)))
    jobs = [(prop_id, s, seed * 1000 + s["seed_offset"], tier, "explore", None) for s in specs_sorted]
    results = []
    errors = []
    with _pool(nproc) as pool:
        for status, payload in pool.imap_unordered(_worker, jobs):
            if status == "ok":
                results.append(payload)
            else:
                errors.append(payload)
    if errors:
        for e in errors:
            print("HARNESS-ERROR property=%s %s" % (prop_id, e), file=sys.stderr)
        print("HARNESS-ERROR property=%s (%d shard(s) failed; see stderr)" % (prop_id, len(errors)))
        return 2
    results.sort(key=lambda s: s["name"])
    spec_by_name = {s["name"]: s for s in specs}

    if os.environ.get("SYNVERIF_DUMP"):
        with open(os.environ["SYNVERIF_DUMP"], "w") as fh:
            json.dump([f for s in results for f in s["failures"]], fh, indent=1)
    known = load_known(prop_id)
    known_hits = collections.OrderedDict()
    buckets = collections.OrderedDict()
    for s in results:
        for f in s["failures"]:
            e = match_known(mod, known, f)
            if e is not None:
                k = e["predicate"]
                known_hits.setdefault(k, {"what": e["what"], "count": 0, "example": f["case"]})
                known_hits[k]["count"] += 1
            else:
                buckets.setdefault(f["bucket"], []).append(f)

    violations = 0
    notes = []
    cap = 60 if tier == "quick" else 300
    shrink_budget = 150 if tier == "quick" else 900   # total seconds spent shrinking over all buckets
    t_shrink = 0.0
    t_post = time.time()
    post_budget = 300 if tier == "quick" else 1500
    verbose = bool(os.environ.get("SYNVERIF_VERBOSE"))
    for bucket, fs in buckets.items():
        if verbose:
            print("[post] bucket %s: %d failing case(s), t=%.0fs" % (bucket, len(fs), time.time() - t_post), file=sys.stderr)
        fs.sort(key=lambda f: len(json.dumps(f["case"])))
        f0 = min(fs, key=lambda f: (f["shard"], f["index"]))
        spec = spec_by_name[f0["shard"]]
        best = None
        fast = (time.time() - t_post) > post_budget   # many buckets: stop shrinking, confirm the smallest case only
        if spec.get("shrinkable", True) and hasattr(mod, "shrink_shard") and t_shrink < shrink_budget and not fast:
            ts = time.time()
            with _pool(1) as pool:
                status, payload = pool.apply(_worker, ((prop_id, spec, seed * 1000 + spec["seed_offset"], tier,
                                                        "shrink", {"bucket": bucket, "index": f0["index"], "cap_s": cap}),))
            t_shrink += time.time() - ts
            if status == "ok" and payload is not None:
                best = payload
        candidates = ([best] if best is not None else []) + [fs[0]["case"], f0["case"]]
        if fast:
            candidates = candidates[:1]
        confirmed = None
        for cand in candidates:
            confirm_spec = spec_by_name[f0["shard"]]
            tries = getattr(mod, "REPLAY_TRIES", 1)
            for _ in range(tries):
                with _pool(1) as pool:
                    status, payload = pool.apply(_worker, ((prop_id, confirm_spec, 0, tier, "replay", {"case": cand}),))
                if status == "ok" and payload:
                    # the replayed failure must not itself be a known finding
                    unk = [g for g in payload if match_known(mod, known, dict(g, case=cand)) is None]
                    if unk:
                        confirmed = (cand, unk)
                        break
            if confirmed:
                break
        if confirmed is None and not fast:
            # not reproducible in isolation: does it depend on the history of calls in that worker (state surviving
            # from one call to the next)? Re-run the shard's prefix twice in fresh processes; both must reproduce it.
            hist = []
            for _ in range(2):
                with _pool(1) as pool:
                    status, payload = pool.apply(_worker, ((prop_id, spec, seed * 1000 + spec["seed_offset"], tier, "prefix",
                                                            {"bucket": bucket, "index": f0["index"], "seq": f0.get("seq")}),))
                if status == "ok" and payload and match_known(mod, known, payload[0]) is None:
                    hist.append(payload[0])
                else:
                    break
            if len(hist) == 2:
                os.makedirs(os.path.join(ROOT, "replays", prop_id), exist_ok=True)
                safe = "".join(c if c.isalnum() or c in "-_." else "_" for c in bucket)[:80]
                path = os.path.join("replays", prop_id, safe + ".history.json")
                with open(os.path.join(ROOT, path), "w") as fh:
                    json.dump({"property": prop_id, "bucket": bucket, "shard": f0["shard"], "spec": jsonable(spec),
                               "history_replay": {"seed": seed * 1000 + spec["seed_offset"], "upto_index": f0["index"],
                                                  "upto_seq": f0.get("seq"), "tier": tier},
                               "case": f0["case"], "failures": [{k: hist[0][k] for k in ("bucket", "clause", "detail")}],
                               "note": "fails only after the preceding cases of this shard were executed in the same process "
                                       "(state carried from one call to the next); reproduced twice in fresh processes"}, fh, indent=1)
                violations += 1
                print("FAILURE property=%s bucket=%s clause=%s (history-dependent) detail=%s" % (
                    prop_id, bucket, hist[0]["clause"], json.dumps(hist[0]["detail"])[:600]))
                print("VIOLATION property=%s replay=%s" % (prop_id, path))
                continue
        if confirmed is None:
            notes.append("bucket %s: %d failing case(s) observed but not reproduced on replay (logged as unconfirmed)" % (bucket, len(fs)))
            print("UNCONFIRMED property=%s bucket=%s (observed %d, not reproduced on replay)" % (prop_id, bucket, len(fs)))
            continue
        cand, unk = confirmed
        unk = sorted(unk, key=lambda g: g["bucket"] != bucket)
        os.makedirs(os.path.join(ROOT, "replays", prop_id), exist_ok=True)
        safe = "".join(c if c.isalnum() or c in "-_." else "_" for c in bucket)[:80]
        path = os.path.join("replays", prop_id, safe + ".json")
        with open(os.path.join(ROOT, path), "w") as fh:
            json.dump({"property": prop_id, "bucket": bucket, "shard": f0["shard"], "spec": jsonable(spec),
                       "case": cand, "failures": unk, "seed": seed, "tier": tier,
                       "observed_cases_in_bucket": len(fs)}, fh, indent=1)
        violations += 1
        print("FAILURE property=%s bucket=%s clause=%s detail=%s" % (
            prop_id, bucket, unk[0]["clause"], json.dumps(unk[0]["detail"])[:600]))
        print("VIOLATION property=%s replay=%s" % (prop_id, path))

    for k, h in known_hits.items():
        print("KNOWN-FINDING: property=%s %s (predicate %s, %d case(s) this run)" % (prop_id, h["what"], k, h["count"]))

    wall = time.time() - t0
    kh = {k: {"what": v["what"], "count": v["count"], "example": v["example"]} for k, v in known_hits.items()}
    write_evidence(prop_id, mod, tier, seed, results, wall, violations, kh, notes)
    tot_cases = sum(s["cases"] for s in results)
    print("%s %s seed=%d: %d cases, %d evaluations, %d distinct non-trivial, %d violation bucket(s), %d known-finding kind(s), %.0fs" % (
        prop_id, tier, seed, tot_cases, sum(s["evaluations"] for s in results),
        len(set().union(*[set(s["name"].split(":")[0] + "/" + k for k in s["nt_keys"]) for s in results])) if results else 0,
        violations, len(known_hits), wall))
    return 1 if violations else 0


def replay_file(prop_id, path):
    mod = importlib.import_module("synverif.props.%s" % prop_id.lower())
    with open(path) as f:
        data = json.load(f)
    spec = data.get("spec") or {"name": data.get("shard", "replay")}
    _quiet()
    if "history_replay" in data:
        h = data["history_replay"]
        shard = ShardResult(spec["name"])
        shard.stop_after = h["upto_index"]
        shard.stop_after_seq = h.get("upto_seq")
        try:
            mod.run_shard(spec, h["seed"], h.get("tier", "quick"), shard)
        except StopShard:
            pass
        _stop_loky()
        hits = [f for f in shard.failures if f["bucket"] == data["bucket"] and f["index"] == h["upto_index"]]
        for g in hits:
            print("FAILURE property=%s bucket=%s clause=%s detail=%s" % (prop_id, g["bucket"], g["clause"], json.dumps(g["detail"])[:1000]))
        if hits:
            print("VIOLATION property=%s replay=%s" % (prop_id, path))
            return 1
        print("replay: property %s holds on this history" % prop_id)
        return 0
    fails = mod.replay(unjson(data["case"]), spec)
    known = load_known(prop_id)
    unk = [g for g in fails if match_known(mod, known, dict(g, case=data["case"])) is None]
    for g in fails:
        print("FAILURE property=%s bucket=%s clause=%s detail=%s" % (prop_id, g["bucket"], g["clause"], json.dumps(g["detail"])[:1000]))
    if unk:
        print("VIOLATION property=%s replay=%s" % (prop_id, path))
        return 1
    print("replay: property %s holds on this case%s" % (prop_id, " (known finding)" if fails else ""))
    return 0
