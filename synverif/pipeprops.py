"""Shared generator, execution wrapper and row oracles for the end-to-end pipeline
properties (C01, C02, C03, C04, C18; reused by C05, C06, C13, C14, C15)."""
import json
import re

from hypothesis import strategies as st

from . import gen, oracle, pipe
from .runner import CaseResult, case_key

TEMPLATE_MARKERS = ["Cr", "Mn", "[BH4-]", "[BH3-]", "[AlH4-]", "[BH3]", "[BH2]", "[AlH3]", "[K]", "[Na][Cl]", "[Li][Cl]"]
PLACEHOLDERS = {"[H]", "[O]"}
METHODS = ("input-balanced", "rule-based", "mcs-based")


def thresholds():
    return st.one_of(st.just(0), st.just(0), st.sampled_from([0, 0.5, 0.9, 0.95, 0.99, 1.0]),
                     st.floats(0, 1, allow_nan=False))


@st.composite
def pipeline_case(draw, rx_strategy, min_rx=1, max_rx=6, n_jobs_choices=(1,), threshold=None,
                  batch=True, carry=False):
    items = draw(st.lists(rx_strategy, min_size=min_rx, max_size=max_rx))
    if draw(st.integers(0, 3)) == 0:
        # the same reaction twice in one batch (identical text), at a drawn position
        k = draw(st.integers(0, len(items) - 1))
        items.insert(draw(st.integers(0, len(items))), (items[k][0], list(items[k][1]) + ["duplicate"]))
    if draw(st.integers(0, 7)) == 0:
        # a malformed sibling row somewhere in the batch: the valid rows around it are still judged (and state that a
        # malformed row leaves behind on the Balancer is carried into the following cases of the shard)
        bad = draw(st.sampled_from(["xx>>yy", "CCO", "C1CC>>CC", "", "CCO>O>CC=O"]))
        items.insert(draw(st.integers(0, len(items))), (bad, ["malformed-sibling"]))
    rxs = [i[0] for i in items]
    tags = [i[1] for i in items]
    n = len(rxs)
    bs = draw(st.one_of(st.none(), st.integers(1, n + 1))) if batch else None
    nj = draw(st.sampled_from(list(n_jobs_choices)))
    t = draw(threshold) if threshold is not None else 0
    # the reaction column name is configuration: mostly the default, sometimes another key (rows are then dicts)
    col = draw(st.sampled_from(["reaction", "reaction", "reaction", "rxn", "smiles"]))
    case = {"reactions": rxs, "tags": tags, "batch_size": bs, "n_jobs": nj, "threshold": t, "col": col}
    if draw(st.integers(0, 7)) == 0:
        # result caching is configuration as well: the judged run uses a cache directory that an earlier run of the
        # same inputs under another threshold has already filled
        case["cache_prelude"] = draw(st.sampled_from([0, 0.5, 0.9, 1.0]))
    if carry and draw(st.integers(0, 5)) == 0:
        # rows that come from an earlier result (dict rows that already carry an `input_reaction` entry, here the one of
        # the neighbouring row) whose reaction column was edited since: the run must report ITS input
        case["carry"] = draw(st.sampled_from(["neighbour", "constant"]))
    return case


def closed_shell_rx(strategy):
    return strategy.filter(lambda t: oracle.reaction_closed_shell(t[0]))


def execute(case):
    """-> (rows, stats, error). error is a string when rebalance raised."""
    col = case.get("col", "reaction")
    cache_dir = None
    try:
        data = case["reactions"] if col == "reaction" else [{col: r} for r in case["reactions"]]
        if case.get("carry"):
            rx = case["reactions"]
            stale = [rx[(i + 1) % len(rx)] if case["carry"] == "neighbour" and len(rx) > 1 else "CCO>>CC=O"
                     for i in range(len(rx))]
            data = [{col: r, "input_reaction": s_, "note": "row %d" % i} for i, (r, s_) in enumerate(zip(rx, stale))]
        if case.get("cache_prelude") is not None:
            import tempfile
            cache_dir = tempfile.mkdtemp(prefix="synverif-pre-", dir="/var/tmp")
            pipe.run(data, batch_size=case.get("batch_size"), n_jobs=case.get("n_jobs", 1),
                     threshold=case["cache_prelude"], reaction_col=col, cache_dir=cache_dir)
        rows, stats = pipe.run(data, batch_size=case.get("batch_size"), n_jobs=case.get("n_jobs", 1),
                               threshold=case.get("threshold", 0), reaction_col=col, cache_dir=cache_dir)
        if col != "reaction":
            # the oracles read the result under 'reaction'; a row that also carries a stray 'reaction' key is reported
            fixed = []
            for r in rows:
                r2 = dict(r)
                if "reaction" in r2:
                    r2["stray_reaction_key"] = r2["reaction"]
                r2["reaction"] = r.get(col)
                fixed.append(r2)
            rows = fixed
        return rows, stats, None
    except Exception as e:  # the API raising on valid input is itself reportable by callers
        return None, None, "%s: %s" % (type(e).__name__, e)
    finally:
        if cache_dir is not None:
            import shutil
            shutil.rmtree(cache_dir, ignore_errors=True)


def added_molecules(inp, out):
    """per side (added, lost) canonical multisets between input reaction and output reaction."""
    si, so = oracle.split_reaction(inp), oracle.split_reaction(out)
    if si is None or so is None:
        return None
    return [oracle.added(si[k], so[k]) for k in (0, 1)]


def row_classes(inp, row):
    """labels for the class histogram of one result row."""
    out = []
    if row.get("solved"):
        out.append("solved:" + str(row.get("solved_by")))
    else:
        out.append("declined")
    rx = row.get("reaction")
    if isinstance(rx, str) and isinstance(inp, str) and row.get("solved") and row.get("solved_by") != "input-balanced":
        ad = added_molecules(row.get("input_reaction", inp), rx)
        if ad is not None:
            allm = list(ad[0][0]) + list(ad[1][0])
            if any(any(m in a for m in TEMPLATE_MARKERS) for a in allm):
                tmpl = sorted({m for a in allm for m in ("Cr", "Mn", "B", "Al") if m in a})
                out.append("redox-template:" + "+".join(tmpl))
            if any(a in PLACEHOLDERS for a in allm):
                out.append("placeholder-added")
            if "[H][H]" in allm:
                out.append("H2-added")
    if isinstance(inp, str):
        if re.search(r"\[[A-Za-z@0-9]*[+-]", inp):
            out.append("charged-input")
        comp = oracle.composition(inp.replace(">>", ".").strip(".")) if ">>" in inp else None
        if comp and any(k in ("U", "Th", "Pu", "Ra", "Fr", "Og", "Lr", "Ac", "Pa", "Np", "Am") for k in comp[0]):
            out.append("Z>86-input")
        if oracle.has_atom_map(inp):
            out.append("mapped-input")
    return out


# ------------------------------------------------------------------- row oracles

def c01_row(res, i, inp, row):
    if not valid_input(inp):
        return   # malformed sibling rows are C05's business
    if not row.get("solved"):
        return
    rx = row.get("reaction")
    b = oracle.balanced(rx)
    stage = str(row.get("solved_by"))
    if b is None:
        res.fail("solved-unparsable:" + stage, "parses", index=i, input=inp, reaction=rx, solved_by=stage)
    elif not b:
        d, q = oracle.imbalance(rx)
        cls = [c for c in row_classes(inp, row) if c.startswith("redox-template")]
        res.fail("solved-unbalanced:" + stage + (":" + cls[0] if cls else ""), "balanced", index=i, input=inp,
                 reaction=rx, solved_by=stage, imbalance=d, charge_diff=q)


def c02_row(res, i, inp, row):
    if not valid_input(inp):
        return   # malformed sibling rows are C05's business
    rx = row.get("reaction")
    ir = row.get("input_reaction")
    if not isinstance(inp, str) or oracle.split_reaction(inp) is None:
        return
    # input_reaction: same molecules in the same order, maps removed
    si, sr = oracle.split_reaction(inp), oracle.split_reaction(ir)
    if sr is None:
        res.fail("input_reaction-malformed", "input_reaction", index=i, input=inp, input_reaction=ir)
    else:
        if oracle.has_atom_map(ir):
            res.fail("input_reaction-keeps-maps", "input_reaction", index=i, input=inp, input_reaction=ir)
        for k in (0, 1):
            a = [oracle.canon(p) for p in si[k].split(".")] if si[k] else []
            b = [oracle.canon(p) for p in sr[k].split(".")] if sr[k] else []
            if a != b:
                res.fail("input_reaction-differs", "input_reaction", index=i, side=k, input=inp, input_reaction=ir)
                break
    ad = added_molecules(inp, rx) if isinstance(rx, str) else None
    if ad is None:
        res.fail("output-malformed", "whole molecules", index=i, input=inp, reaction=rx)
        return
    for k in (0, 1):
        lost = ad[k][1]
        if lost:
            res.fail("molecule-lost:" + ("reactants" if k == 0 else "products"), "whole molecules", index=i,
                     input=inp, reaction=rx, side=k, lost=dict(lost), added=dict(ad[k][0]),
                     solved=bool(row.get("solved")), solved_by=row.get("solved_by"))
        for m in ad[k][0]:
            if m.startswith("<unparsable"):
                res.fail("added-unparsable", "whole molecules", index=i, input=inp, reaction=rx, molecule=m)


def c03_row(res, i, inp, row):
    if not valid_input(inp):
        return   # malformed sibling rows are C05's business
    rx = row.get("reaction")
    ir = row.get("input_reaction")
    issue = row.get("issue")
    if row.get("solved"):
        if row.get("solved_by") not in METHODS:
            res.fail("solved-without-method", "method", index=i, input=inp, row=row)
        if not pipe.isnull(issue):
            res.fail("solved-with-issue", "issue", index=i, input=inp, issue=issue, solved_by=row.get("solved_by"))
    else:
        if rx != ir:
            res.fail("declined-altered", "untouched", index=i, input=inp, reaction=rx, input_reaction=ir, issue=issue)
        if pipe.isnull(issue) or not isinstance(issue, str) or not issue.strip():
            res.fail("declined-without-issue", "issue", index=i, input=inp, row=row)
    sp = oracle.split_reaction(inp) if isinstance(inp, str) else None
    if sp is not None:
        ca, cb = oracle.count_element(sp[0], "C"), oracle.count_element(sp[1], "C")
        if ca is not None and cb is not None and cb > ca and row.get("solved"):
            res.fail("carbon-excess-solved", "carbon excess", index=i, input=inp, reaction=rx, carbons=[ca, cb])


def c04_row(res, i, inp, row, direction="both"):
    if not valid_input(inp):
        return
    b = oracle.balanced(inp) if isinstance(inp, str) else None
    rx = row.get("reaction")
    if b and direction in ("both", "forward"):
        if not (row.get("solved") and row.get("solved_by") == "input-balanced"):
            res.fail("balanced-not-passed", "forward", index=i, input=inp, solved=row.get("solved"),
                     solved_by=row.get("solved_by"), issue=row.get("issue"), reaction=rx)
        else:
            from synrbl.SynUtils.chem_utils import remove_atom_mapping
            ad = added_molecules(inp, rx)
            if ad is None or any(x for side in ad for x in side):
                res.fail("balanced-altered", "forward", index=i, input=inp, reaction=rx)
            elif rx != row.get("input_reaction"):
                res.fail("balanced-not-equal-input", "forward", index=i, input=inp, reaction=rx,
                         input_reaction=row.get("input_reaction"))
    if direction in ("both", "converse") and row.get("solved_by") == "input-balanced":
        if b is False:
            d, q = oracle.imbalance(inp)
            res.fail("unbalanced-labelled-input-balanced", "converse", index=i, input=inp, reaction=rx,
                     imbalance=d, charge_diff=q)
        ad = added_molecules(inp, rx) if isinstance(rx, str) else None
        if ad is not None and any(x for side in ad for x in side):
            res.fail("input-balanced-with-additions", "converse", index=i, input=inp, reaction=rx)


def valid_input(inp):
    if not isinstance(inp, str):
        return False
    sp = oracle.split_reaction(inp)
    if sp is None:
        return False
    return oracle.parse(sp[0]) is not None and oracle.parse(sp[1]) is not None


def c18_stats(res, case, rows, stats):
    n = len(case["reactions"])
    g = lambda k: stats.get(k, 0)
    nb = sum(1 for r in rows if r.get("solved_by") == "input-balanced")
    n_rb = sum(1 for r in rows if r.get("solved_by") == "rule-based")
    n_mcs_attr = sum(1 for r in rows if r.get("solved_by") == "mcs-based")
    n_mcs_solved = sum(1 for r in rows if r.get("solved_by") == "mcs-based" and r.get("solved"))
    n_invalid = sum(1 for inp in case["reactions"] if not valid_input(inp))
    # rows not solved before the MCS stage: neither input-balanced nor rule-based, and not declined as malformed
    n_to_mcs = n - nb - n_rb - n_invalid
    detail = dict(stats=stats, n=n, rows_input_balanced=nb, rows_rule_based=n_rb, rows_mcs_attributed=n_mcs_attr,
                  rows_mcs_solved=n_mcs_solved, rows_malformed=n_invalid, reactions=case["reactions"],
                  batch_size=case.get("batch_size"), threshold=case.get("threshold"))
    if g("reaction_cnt") != n:
        res.fail("reaction_cnt", "reaction count", **detail)
    if g("balanced_cnt") != nb:
        res.fail("balanced_cnt", "balanced count", **detail)
    if g("confident_cnt") != n_mcs_solved:
        res.fail("confident_cnt", "confident count", **detail)
    if g("mcs_applied") != n_to_mcs:
        res.fail("mcs_applied", "mcs applied", **detail)
    if g("rb_solved") > g("rb_applied"):
        res.fail("rb_solved>applied", "solved<=applied", **detail)
    if g("mcs_solved") > g("mcs_applied"):
        res.fail("mcs_solved>applied", "solved<=applied", **detail)
    if g("rb_solved") < n_rb:
        res.fail("rb_solved<rows", "solved>=attributed", **detail)
    if g("mcs_solved") < n_mcs_attr:
        res.fail("mcs_solved<rows", "solved>=attributed", **detail)


def has_unplanned_timeout(rows):
    return any(pipe.is_timeout_issue(r) for r in rows)


# ------------------------------------------------------------ module scaffolding

def fixed_case(rxs, tags=None, batch_size=None, n_jobs=1, threshold=0):
    return {"reactions": list(rxs), "tags": tags or [["fixed"]] * len(rxs), "batch_size": batch_size,
            "n_jobs": n_jobs, "threshold": threshold}


def template_reactions():
    rx = []
    for name, lhs, rhs in gen.TEMPLATES:
        for r in gen.R_GROUPS:
            s = lhs.format(R=r) + ">>" + rhs.format(R=r)
            if oracle.balanced(s) is not None:
                rx.append((s, ["template:" + name]))
    return rx


def corpus_closed_shell():
    return [r for r in gen.load_reactions("input") if oracle.reaction_closed_shell(r)]


class PipelineModule:
    """Common shard kinds for properties judged on rebalance() output rows.
    judge(case, rows, stats, res) adds failures/classes/non-trivial keys."""

    def __init__(self, judge, rx_strategy=None, thresholds_strategy=None, extra_enum=None, min_rx=1, max_rx=6,
                 carry=False):
        self.judge = judge
        self.carry = carry
        self.rx_strategy = rx_strategy
        self.thresholds = thresholds_strategy
        self.extra_enum = extra_enum or {}
        self.min_rx, self.max_rx = min_rx, max_rx

    def _rx(self, spec):
        if self.rx_strategy is not None:
            return self.rx_strategy(spec)
        base = closed_shell_rx(gen.any_reaction(max_heavy=spec.get("max_heavy", 30), max_mols=4,
                                                weights=tuple(spec.get("weights", (4, 4, 3, 1)))))
        return gen.maybe_respelled(base, 4)

    def strategy(self, spec):
        return pipeline_case(self._rx(spec), spec.get("min_rx", self.min_rx), spec.get("max_rx", self.max_rx),
                             n_jobs_choices=tuple(spec.get("n_jobs", (1,))), threshold=self.thresholds,
                             batch=spec.get("batch", True), carry=self.carry)

    def check_case(self, case, spec=None):
        res = CaseResult()
        rows, stats, err = execute(case)
        res.evals = len(case["reactions"])
        if err is not None or len(rows) != len(case["reactions"]):
            res.inconclusive = ("no 1:1 rows (judged by C05)" if err is None else "rebalance raised (judged by C05)")
            return res
        self.judge(case, rows, stats, res)
        return res

    def enum_cases(self, spec):
        k = spec["kind"]
        if k == "templates":
            rx = template_reactions()
            for i in range(0, len(rx), 6):
                c = rx[i:i + 6]
                yield fixed_case([x[0] for x in c], [x[1] for x in c])
        elif k == "heavy":
            rx = [r for r, _ in gen.HEAVY_REACTIONS]
            for i in range(0, len(rx), 5):
                yield fixed_case(rx[i:i + 5], [["heavy"]] * len(rx[i:i + 5]))
            for r in rx:
                yield fixed_case([r], [["heavy"]])
        elif k == "corpus":
            rx = corpus_closed_shell()
            rx = [r for j, r in enumerate(rx) if j % spec["of"] == spec["part"]]
            for i in range(0, len(rx), 25):
                yield fixed_case(rx[i:i + 25], [["corpus"]] * len(rx[i:i + 25]), batch_size=spec.get("batch_size"))
        elif k == "big-batch":
            rx = corpus_closed_shell()
            capped = set(gen.load_reactions_capped("input", 30, 4))
            rx = [r for r in rx if r in capped]
            bal = list(gen.load_reactions_capped("balanced", 30, 4))
            for j, (nj, bs) in enumerate([(4, None), (16, 32), (3, 17)]):
                chunk = rx[300 + 90 * j: 300 + 90 * j + 60] + bal[200 + 30 * j: 200 + 30 * j + 20]
                chunk = chunk[::2] + chunk[1::2]   # interleave outcome classes
                yield fixed_case(chunk, [["big-batch"]] * len(chunk), batch_size=bs, n_jobs=nj)
        elif k in self.extra_enum:
            for c in self.extra_enum[k](spec):
                yield c
        else:
            raise ValueError(k)

    def std_shards(self, tier, n_hyp=11, examples=110, thorough_examples=1500, njobs=True, mcs_heavy=True,
                   templates=True, heavy=True, corpus=True):
        q = tier == "quick"
        out = []
        for i in range(n_hyp if q else 12):
            out.append({"name": "hyp:%d" % i, "kind": "hyp", "examples": examples if q else thorough_examples})
        if njobs:
            # worker pools: batches larger than the worker count (2-4 workers, 5-12 reactions, mostly one batch) and
            # a wide pool (16 workers)
            for i in range(2):
                out.append({"name": "hyp-njobs:%d" % i, "kind": "hyp", "examples": max(20, examples // 3) if q else 300,
                            "n_jobs": (2, 3, 4), "min_rx": 5, "max_rx": 12, "batch": i == 1, "procs": 4,
                            "weights": (3, 6, 2, 1)})
            out.append({"name": "hyp-njobs-wide", "kind": "hyp", "examples": max(10, examples // 6) if q else 150,
                        "n_jobs": (16,), "min_rx": 3, "max_rx": 8, "procs": 4})
        if mcs_heavy:
            out.append({"name": "hyp-mcs-heavy", "kind": "hyp", "examples": max(30, (examples * 2) // 3) if q else 800,
                        "weights": (8, 2, 0, 0), "max_heavy": 40})
        if templates:
            out.append({"name": "templates", "kind": "templates", "weight": 20000})
        if heavy:
            out.append({"name": "heavy-elements", "kind": "heavy"})
        # joblib with real worker pools on batches much larger than the pool (pre-dispatch / auto-batching territory)
        out.append({"name": "big-batch", "kind": "big-batch", "weight": 4000, "procs": 4})
        if corpus and not q:
            for i in range(8):
                out.append({"name": "corpus:%d" % i, "kind": "corpus", "part": i, "of": 8, "weight": 10 ** 6})
        return out

    def run_shard(self, spec, seed, tier, shard):
        from .runner import explore
        if spec["kind"] == "hyp":
            explore(shard, self.strategy(spec), lambda c: self.check_case(c, spec), spec["examples"], seed)
        else:
            for i, case in enumerate(self.enum_cases(spec)):
                shard.add(case, self.check_case(case, spec), i)
            shard.exhaustive = True

    def shrink_shard(self, spec, seed, tier, bucket, index, cap_s):
        from .runner import shrink
        if spec["kind"] != "hyp":
            return None
        return shrink(self.strategy(spec), lambda c: self.check_case(c, spec), bucket, seed, index, spec["examples"], cap_s)

    def replay(self, case, spec):
        return self.check_case(case, spec).failures
