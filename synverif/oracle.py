"""Independent chemistry oracle. Shares no code with synrbl: compositions are
computed from RDKit atoms (atomic number -> symbol through RDKit's periodic
table, hydrogens = graph H atoms + GetTotalNumHs, charge = sum of formal
charges); molecule identity is RDKit canonical SMILES with atom maps cleared.
"""
from collections import Counter
import re

from rdkit import Chem
from rdkit import RDLogger

RDLogger.DisableLog("rdApp.*")
_PT = Chem.GetPeriodicTable()


def parse(smiles):
    if not isinstance(smiles, str):
        return None
    try:
        return Chem.MolFromSmiles(smiles)
    except Exception:
        return None


def mol_composition(mol):
    """(Counter symbol->count incl. all hydrogens, net charge) of an RDKit mol."""
    c = Counter()
    q = 0
    for a in mol.GetAtoms():
        c[_PT.GetElementSymbol(a.GetAtomicNum()) if a.GetAtomicNum() > 0 else "*"] += 1
        h = a.GetTotalNumHs()
        if h:
            c["H"] += h
        q += a.GetFormalCharge()
    return c, q


def composition(smiles):
    """Composition of a molecule or dot mixture; '' is the empty mixture.
    Returns (Counter, charge) or None when some component does not parse."""
    tot = Counter()
    q = 0
    if smiles == "":
        return tot, 0
    for part in smiles.split("."):
        if part == "":
            return None
        m = parse(part)
        if m is None:
            return None
        c, cq = mol_composition(m)
        tot.update(c)
        q += cq
    return tot, q


def split_reaction(rxn):
    if not isinstance(rxn, str):
        return None
    parts = rxn.split(">>")
    if len(parts) != 2:
        return None
    return parts[0], parts[1]


def balanced(rxn):
    """True/False, or None when the reaction string is malformed/unparsable."""
    sp = split_reaction(rxn)
    if sp is None:
        return None
    a = composition(sp[0])
    b = composition(sp[1])
    if a is None or b is None:
        return None
    return a[0] == b[0] and a[1] == b[1]


def imbalance(rxn):
    """(Counter reactants-products (signed, zero entries dropped), charge diff)."""
    sp = split_reaction(rxn)
    a = composition(sp[0])
    b = composition(sp[1])
    keys = set(a[0]) | set(b[0])
    d = {k: a[0].get(k, 0) - b[0].get(k, 0) for k in keys}
    return {k: v for k, v in d.items() if v != 0}, a[1] - b[1]


def count_element(smiles_side, symbol):
    c = composition(smiles_side)
    return None if c is None else c[0].get(symbol, 0)


def clear_maps(mol):
    for a in mol.GetAtoms():
        a.SetAtomMapNum(0)
    return mol


def canon(smiles, isomeric=True):
    """Canonical SMILES with atom maps cleared; None if unparsable."""
    m = parse(smiles)
    if m is None:
        return None
    clear_maps(m)
    return Chem.MolToSmiles(m, isomericSmiles=isomeric)


def same_molecule(a, b, isomeric=True):
    ca, cb = canon(a, isomeric), canon(b, isomeric)
    return ca is not None and ca == cb


def molecule_multiset(side, isomeric=True):
    """Counter of canonical molecules on one side ('' -> empty)."""
    out = Counter()
    if side == "":
        return out
    for part in side.split("."):
        c = canon(part, isomeric)
        out[c if c is not None else "<unparsable:%s>" % part] += 1
    return out


def added(input_side, output_side, isomeric=True):
    """(added, lost) multisets between an input side and an output side."""
    i = molecule_multiset(input_side, isomeric)
    o = molecule_multiset(output_side, isomeric)
    return o - i, i - o


_MAP_RE = re.compile(r":\d+\]")


def has_atom_map(smiles):
    return isinstance(smiles, str) and _MAP_RE.search(smiles) is not None


def closed_shell(smiles):
    """Every component parses, has no radical electrons and no dummy atoms."""
    if smiles == "":
        return True
    for part in smiles.split("."):
        m = parse(part)
        if m is None:
            return False
        for a in m.GetAtoms():
            if a.GetNumRadicalElectrons() != 0 or a.GetAtomicNum() == 0:
                return False
    return True


def reaction_closed_shell(rxn):
    sp = split_reaction(rxn)
    return sp is not None and closed_shell(sp[0]) and closed_shell(sp[1])


def heavy_atoms(smiles):
    m = parse(smiles)
    return None if m is None else m.GetNumHeavyAtoms()


def selfcheck(smiles_list):
    """Cross-check composition() against RDKit's CalcMolFormula (independent
    route: Hill formula string). Returns list of disagreements."""
    from rdkit.Chem.rdMolDescriptors import CalcMolFormula

    bad = []
    for s in smiles_list:
        m = parse(s)
        if m is None:
            continue
        c, q = mol_composition(m)
        f = CalcMolFormula(m)
        # parse Hill formula
        core = re.sub(r"[+-]\d*$", "", f)
        got = Counter()
        for sym, n in re.findall(r"([A-Z][a-z]?)(\d*)", core):
            got[sym] += int(n) if n else 1
        if got != c:
            bad.append((s, f, dict(c)))
    return bad
