"""Fault injection for the MCS stage (C11). Harness-only monkey patches, effective with n_jobs=1
(joblib then runs the stage in-process):

* a ThreadPool shim is installed as the name `multiprocessing` of
  synrbl.SynMCSImputer.SubStructure.mcs_process and synrbl.SynMCSImputer.MissingGraph.find_graph_dict.
  For a job with a planned *timeout* it delays the worker function by delta seconds and shortens the
  caller's get() wait to 50 ms, so a genuine multiprocessing.TimeoutError is raised and the abandoned
  thread really keeps running and later writes into the record that was already returned. Jobs without a
  planned fault keep the real 2 s budget, so machine load cannot fake a fault.
* planned *internal exceptions* are raised from inside the wrapped search call
  (MCSMissingGraphAnalyzer.fit, which single_mcs catches) and from
  FindMissingGraphs.find_missing_parts_pairs (which the fragment-analysis wrapper catches).
"""
import multiprocessing
import multiprocessing.pool
import threading
import time
import types

_TL = threading.local()


class Plan:
    def __init__(self):
        self.reset({}, {})

    def reset(self, mcs, graph):
        self.mcs = dict(mcs)        # (reaction id, condition index) -> ("raise",) | ("timeout", delay)
        self.graph = dict(graph)    # reaction id -> ("raise",) | ("timeout", delay)
        self.log = []
        self.graph_ids = []         # ids of the reactions handed to the fragment analysis, in job order
        self.graph_calls = 0
        self.pending = []


PLAN = Plan()
_INSTALLED = {"done": False}


def cond_index(kw):
    if kw.get("method") == "MCIS":
        return 0 if kw.get("RingMatchesRingOnly") else 1
    return 2


class _ShimResult:
    def __init__(self, real, short):
        self.real = real
        self.short = short

    def get(self, timeout=None):
        return self.real.get(self.short if self.short is not None else timeout)


class _ShimPool:
    def __init__(self, n):
        self.real = multiprocessing.pool.ThreadPool(n)

    def terminate(self):
        self.real.terminate()

    def apply_async(self, func, args=(), kwds={}):
        short = None
        if func.__name__ == "single_mcs":
            key = ("mcs", str(args[0]["id"]), cond_index(kwds))
            act = PLAN.mcs.get((key[1], key[2]))
        else:
            i = PLAN.graph_calls
            PLAN.graph_calls += 1
            rid = PLAN.graph_ids[i] if i < len(PLAN.graph_ids) else None
            key = ("graph", rid)
            act = PLAN.graph.get(rid)
        PLAN.log.append((key, act))
        delay = act[1] if act and act[0] == "timeout" else 0
        if delay:
            short = 0.05

        def wrapped(*a, **k):
            _TL.job = (key, act)
            try:
                if delay:
                    time.sleep(delay)
                return func(*a, **k)
            finally:
                _TL.job = None
        res = self.real.apply_async(wrapped, args, kwds)
        PLAN.pending.append(res)
        return _ShimResult(res, short)


def _current():
    return getattr(_TL, "job", None)


def install():
    if _INSTALLED["done"]:
        return
    import synrbl.SynMCSImputer.SubStructure.mcs_process as mp
    import synrbl.SynMCSImputer.MissingGraph.find_graph_dict as fgd
    import synrbl.mcs_search as ms
    shim = types.SimpleNamespace(pool=types.SimpleNamespace(ThreadPool=_ShimPool),
                                 TimeoutError=multiprocessing.TimeoutError)
    mp.multiprocessing = shim
    fgd.multiprocessing = shim

    real_analyzer = mp.MCSMissingGraphAnalyzer

    class FaultyAnalyzer(real_analyzer):
        def fit(self, *a, **k):
            job = _current()
            if job and job[1] and job[1][0] == "raise":
                raise RuntimeError("injected MCS failure")
            return super().fit(*a, **k)
    mp.MCSMissingGraphAnalyzer = FaultyAnalyzer

    real_fmg = fgd.FindMissingGraphs

    class FaultyFMG(real_fmg):
        @staticmethod
        def find_missing_parts_pairs(*a, **k):
            job = _current()
            if job and job[1] and job[1][0] == "raise":
                raise RuntimeError("injected fragment-analysis failure")
            return real_fmg.find_missing_parts_pairs(*a, **k)
    fgd.FindMissingGraphs = FaultyFMG

    real_fgd = ms.find_graph_dict

    def recording_find_graph_dict(mcs_dict, *a, **k):
        PLAN.graph_ids = [str(d.get("id")) for d in mcs_dict]
        PLAN.graph_calls = 0
        return real_fgd(mcs_dict, *a, **k)
    ms.find_graph_dict = recording_find_graph_dict
    _INSTALLED["done"] = True


def drain(timeout=6.0):
    """wait for abandoned worker threads of the last run so they cannot disturb the next case"""
    t0 = time.time()
    for r in PLAN.pending:
        try:
            r.wait(max(0.0, timeout - (time.time() - t0)))
        except Exception:
            pass
    PLAN.pending = []
