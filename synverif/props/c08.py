"""C08 — rule-based completions add up exactly to the imbalance; database compositions are true; accepted
completions never add dihalogens / interhalogens to the product side."""
import itertools
import json
import os
import signal

from hypothesis import strategies as st

from .. import gen, oracle, pipe, pipeprops as pp
from ..runner import CaseResult, case_key, explore, shrink
from .c19 import shipped

ID = "C08"
LEVEL = "exploration"
RULE = ("(i) ALL imbalance vectors with 1-4 atoms (1-5 in thorough) over the elements occurring in the shipped rule "
        "databases x charge -2..2 (plus, up to 3 atoms, every variant with one element entry negated = a surplus element), for both shipped databases, through SyntheticRuleMatcher(select='all', "
        "ranking='ion_priority').match(); (ii) Hypothesis vectors built as sums of 1-3 database compounds with "
        "multiplicity <=2 plus drawn noise; (iii) every record of both databases against the oracle composition; "
        "(iv) SyntheticRuleImputer.single_impute + RuleConstraint.fit on generated entries and rule-based rows of "
        "real pipeline runs on halogen-coupling / generated reactions. Oracle: every returned completion uses only "
        "database SMILES with positive integer Ratio and its Ratio-weighted oracle compositions sum to the requested "
        "imbalance in every element and in charge; accepted entries / rule-based rows add no molecule made of exactly "
        "two halogen atoms to the products. Each match() call is bounded by generated size and a 5 s alarm (skipped, "
        "never failed). Non-trivial = vector for which >=1 completion is returned; distinct = distinct (database, vector).")
ASSUMPTIONS = [
    "the imbalance vector is taken as given to the matcher (element counts >=1, charge under 'Q'); the pipeline's "
    "loss of the charge sign upstream is outside this property",
    "match() calls that exceed the 5 s alarm (exponential depth-first search) are skipped and counted",
    "RDKit trusted for the oracle composition of database SMILES",
]
HALOGENS = {"F", "Cl", "Br", "I"}
DBS = ("rules_manager", "automated_rules")
_DB = {}


def db(name):
    if name not in _DB:
        _DB[name] = shipped(name)
    return _DB[name]


def db_elements(name):
    els = set()
    for r in db(name):
        els.update(k for k in r["Composition"] if k != "Q")
    return sorted(els)


class _Timeout(Exception):
    pass


def _alarm(signum, frame):
    raise _Timeout()


def match(name, vec, cap=5):
    from synrbl.SynRuleImputer.synthetic_rule_matcher import SyntheticRuleMatcher
    signal.signal(signal.SIGALRM, _alarm)
    signal.alarm(cap)
    try:
        m = SyntheticRuleMatcher(db(name), dict(vec), select="all", ranking="ion_priority")
        return m.match()
    finally:
        signal.alarm(0)


def is_dihalogen(smiles):
    m = oracle.parse(smiles)
    return m is not None and m.GetNumAtoms() == 2 and all(a.GetSymbol() in HALOGENS for a in m.GetAtoms()) \
        and all(a.GetTotalNumHs() == 0 and a.GetFormalCharge() == 0 for a in m.GetAtoms())


def check_vector(case):
    name, vec = case["db"], case["vector"]
    res = CaseResult()
    try:
        sols = match(name, vec)
    except _Timeout:
        res.inconclusive = "match() exceeded 5 s (skipped)"
        return res
    except Exception as e:
        res.fail("match-raises:" + type(e).__name__, "no exception", db=name, vector=vec, error=str(e)[:200])
        return res
    smiles_ok = {r["smiles"] for r in db(name)}
    want = {k: v for k, v in vec.items() if v != 0}
    for sol in sols:
        if len(sol) == 0 and want:
            res.fail("empty-completion", "sums to imbalance", db=name, vector=vec)
            continue
        tot, q = {}, 0
        bad = False
        for item in sol:
            s, r = item.get("smiles"), item.get("Ratio")
            if s not in smiles_ok:
                res.fail("foreign-compound", "database compounds only", db=name, vector=vec, item=item)
                bad = True
                break
            if not isinstance(r, int) or isinstance(r, bool) or r <= 0:
                res.fail("bad-ratio", "positive integer ratio", db=name, vector=vec, item=item, solution=sol)
                bad = True
                break
            c = oracle.composition(s)
            for k, v in c[0].items():
                tot[k] = tot.get(k, 0) + v * r
            q += c[1] * r
        if bad:
            continue
        if q != 0:
            tot["Q"] = q
        if tot != want:
            res.fail("completion-sum-differs:" + ("charge" if {k for k in set(tot) | set(want) if tot.get(k) != want.get(k)} == {"Q"} else "element"),
                     "sums to imbalance", db=name, vector=vec, solution=sol, sum=tot)
    res.nontrivial = len(sols) > 0
    if any(v < 0 for k, v in want.items() if k != "Q"):
        res.tag("mixed-sign-vector")
    if sols:
        res.tag("solvable", "db:" + name)
        if any(len(s) >= 2 for s in sols):
            res.tag("multi-compound-completion")
        if want.get("Q"):
            res.tag("charged-vector")
    else:
        res.tag("unsolvable")
    return res


def check_record(case):
    res = CaseResult()
    r = case["record"]
    c = oracle.composition(r["smiles"])
    if c is None:
        res.fail("record-unparsable", "database composition", db=case["db"], record=r)
        return res
    exp = dict(c[0])
    exp["Q"] = c[1]
    got = dict(r["Composition"])
    got.setdefault("Q", 0)
    if got != exp:
        res.fail("record-composition", "database composition", db=case["db"], record=r, expected=exp)
    res.nontrivial = True
    return res


def check_impute(case):
    """single_impute + RuleConstraint.fit on a generated entry (reactants, products given as SMILES sides)."""
    from synrbl.SynRuleImputer import SyntheticRuleImputer
    from synrbl.SynRuleImputer.synthetic_rule_constraint import RuleConstraint
    res = CaseResult()
    entry = {"reactants": case["reactants"], "products": case["products"], "Diff_formula": dict(case["vector"]),
             "Unbalance": case["side"], "id": "0",
             "input_reaction": case["reactants"] + ">>" + case["products"]}   # pipeline rows carry it as well
    signal.signal(signal.SIGALRM, _alarm)
    signal.alarm(5)
    try:
        out = SyntheticRuleImputer.single_impute(entry, db(case["db"]), "all", "ion_priority")
    except _Timeout:
        res.inconclusive = "single_impute exceeded 5 s (skipped)"
        return res
    finally:
        signal.alarm(0)
    if "new_reaction" not in out:
        res.tag("no-completion")
        return res
    key = "products" if case["side"] == "Products" else "reactants"
    if not out[key].startswith(case[key]):
        res.fail("impute-altered-side", "only appends", case=case, out=out[key])
        return res
    added = out[key][len(case[key]):].strip(".")
    comp = oracle.composition(added) if added else ({}, 0)
    want = {k: v for k, v in case["vector"].items() if v != 0}
    got = dict(comp[0])
    if comp[1]:
        got["Q"] = comp[1]
    if got != want:
        res.fail("imputed-sum-differs", "sums to imbalance", case=case, added=added, sum=got)
    certain, uncertain = RuleConstraint([out], ban_atoms=["[O].[O]", "F-F", "Cl-Cl", "Br-Br", "I-I", "Cl-Br", "Cl-I", "Br-I"]).fit()
    res.nontrivial = True
    res.tag("imputed:" + key, "certain" if certain else "uncertain")
    for c in certain:
        before = oracle.molecule_multiset(case["products"])
        after = oracle.molecule_multiset(c["products"]) if oracle.composition(c["products"]) is not None else None
        if after is None:
            res.fail("constraint-unparsable", "valid", case=case, products=c["products"])
            continue
        for m in (after - before):
            if is_dihalogen(m):
                res.fail("dihalogen-accepted", "no dihalogen on products", case=case, added=m, new_reaction=c.get("new_reaction"))
    return res


def check_pipeline(case):
    res = CaseResult()
    rows, stats, err = pp.execute(case)
    if err or len(rows) != len(case["reactions"]):
        res.inconclusive = "row count (C05)"
        return res
    res.evals = len(rows)
    for inp, row in zip(case["reactions"], rows):
        if row.get("solved") and row.get("solved_by") == "rule-based":
            ad = pp.added_molecules(row["input_reaction"], row["reaction"])
            res.nt_keys.append(case_key(inp))
            res.tag("rule-based-row")
            for m in ad[1][0]:
                if is_dihalogen(m):
                    res.fail("dihalogen-in-rule-based-row", "no dihalogen on products", input=inp, reaction=row["reaction"], added=m)
            smiles_ok = {oracle.canon(r["smiles"]) for r in db("rules_manager")}
            tmpl = None
            for side in (0, 1):
                for m in ad[side][0]:
                    if m not in smiles_ok:
                        if tmpl is None:
                            from .c14 import template_smiles
                            tmpl = template_smiles()
                        if m not in tmpl:
                            res.fail("rule-based-row-foreign-compound", "database compounds only", input=inp,
                                     reaction=row["reaction"], added=m)
    return res


@st.composite
def sum_vector(draw):
    name = draw(st.sampled_from(DBS))
    recs = db(name)
    vec = {}
    for _ in range(draw(st.integers(1, 3))):
        r = recs[draw(st.integers(0, len(recs) - 1))]
        m = draw(st.integers(1, 2))
        for k, v in r["Composition"].items():
            vec[k] = vec.get(k, 0) + v * m
    if draw(st.integers(0, 3)) == 0:
        k = draw(st.sampled_from(db_elements(name) + ["Q"]))
        vec[k] = vec.get(k, 0) + draw(st.integers(-1, 2))
    signed = draw(st.integers(0, 5)) == 0
    vec = {k: v for k, v in vec.items() if (v > 0 or k == "Q" or signed) and v != 0}
    if signed and len([k for k in vec if k != "Q"]) >= 2:
        k = draw(st.sampled_from(sorted(k for k in vec if k != "Q")))
        vec[k] = -abs(vec[k])
    if sum(v for k, v in vec.items() if k != "Q") > 9:
        # keep the exponential search small: scale down to <=9 atoms
        vec = {k: (min(v, 2) if k != "Q" else v) for k, v in vec.items()}
    return {"db": name, "vector": vec}


@st.composite
def impute_entry(draw):
    v = draw(sum_vector())
    if sum(x for k, x in v["vector"].items() if k != "Q") > 7:
        v["vector"] = {k: min(x, 1) if k != "Q" else x for k, x in v["vector"].items()}
    mol = gen.molecule(True, 15, False)
    r = ".".join(draw(st.lists(mol, min_size=1, max_size=2)))
    p = ".".join(draw(st.lists(mol, min_size=1, max_size=2)))
    side = draw(st.sampled_from(["Products", "Products", "Reactants"]))
    if draw(st.integers(0, 4)) == 0:
        # the product side as given already holds a dihalogen and the missing part is halogen again: the given
        # molecule is the input's business, a further one would be an addition
        x1, x2 = draw(st.sampled_from(sorted(HALOGENS))), draw(st.sampled_from(sorted(HALOGENS)))
        vec = {}
        for x in (x1, x2):
            vec[x] = vec.get(x, 0) + 1
        if draw(st.booleans()):
            vec["H"] = draw(st.integers(1, 2))
        v = dict(v, vector=vec)
        p = ".".join(draw(st.permutations([p, x1 + x2])))
        side = "Products"
    return dict(v, reactants=r, products=p, side=side)


def halogen_reactions():
    rs = ["C", "CC", "c1ccccc1", "CCC"]
    xs = ["F", "Cl", "Br", "I"]
    out = []
    for r1, r2 in itertools.product(rs[:3], rs[:3]):
        for x1, x2 in itertools.product(xs, xs):
            out.append("%s%s.%s%s>>%s%s" % (r1, x1, r2, x2, r1, r2 if r2 != "c1ccccc1" else "c2ccccc2"))
    # several equivalents, with one dihalogen / interhalogen molecule already given among the products
    for r1 in rs:
        rr = r1 + (r1 if r1 != "c1ccccc1" else "c2ccccc2")
        for x1, x2 in itertools.product(xs, xs):
            out.append("%s%s.%s%s.%s%s.%s%s>>%s.%s.%s%s" % (r1, x1, r1, x2, r1, x1, r1, x2, rr, rr, x1, x2))
    out += ["CCl.Cl>>C", "CBr.BrBr>>C", "ClCCl>>C=C", "C(Cl)Cl>>C", "ClC(Cl)Cl>>CCl", "BrCCBr>>C=C", "ICCI>>C=C",
            "FC(F)F>>CF", "ClCCBr>>C=C", "ClCCI>>C=C", "BrCCI>>C=C"]
    return [r for r in out if oracle.balanced(r) is not None]


def shards(tier):
    q = tier == "quick"
    out = []
    for name in DBS:
        for i in range(4):
            out.append({"name": "exhaustive-%s:%d" % (name, i), "kind": "exh", "db": name, "part": i, "of": 4,
                        "maxatoms": 4 if q else 5, "weight": 10 ** 5})
    out.append({"name": "records", "kind": "records"})
    for i in range(3):
        out.append({"name": "hyp-vectors:%d" % i, "kind": "hyp-vec", "examples": 600 if q else 8000})
    for i in range(2):
        out.append({"name": "hyp-impute:%d" % i, "kind": "hyp-imp", "examples": 500 if q else 6000})
    out.append({"name": "pipeline-halogen", "kind": "pipe-halogen"})
    for i in range(2):
        out.append({"name": "hyp-pipeline:%d" % i, "kind": "hyp-pipe", "examples": 60 if q else 800})
    return out


def _exh_vectors(name, maxatoms):
    els = db_elements(name)
    for n in range(1, maxatoms + 1):
        for combo in itertools.combinations_with_replacement(els, n):
            vec = {}
            for e in combo:
                vec[e] = vec.get(e, 0) + 1
            for qv in (-2, -1, 0, 1, 2):
                v = dict(vec)
                if qv:
                    v["Q"] = qv
                yield v
            # mixed-sign vectors (the 'Both'-side handling of the rule-based stage can hand the solver a formula with
            # a surplus element as a negative entry): nothing can fill a negative entry, so any completion is wrong
            if n <= 3 and len(vec) >= 2:
                for neg in vec:
                    v = dict(vec)
                    v[neg] = -v[neg]
                    yield v


def _pipe_strategy():
    base = pp.closed_shell_rx(gen.any_reaction(max_heavy=25, max_mols=4, weights=(2, 6, 3, 1)))
    return pp.pipeline_case(base, 1, 5)


def run_shard(spec, seed, tier, shard):
    k = spec["kind"]
    if k == "exh":
        for i, v in enumerate(_exh_vectors(spec["db"], spec["maxatoms"])):
            if i % spec["of"] == spec["part"]:
                c = {"db": spec["db"], "vector": v}
                shard.add(c, check_vector(c), i)
        shard.exhaustive = True
        shard.extra["elements"] = len(db_elements(spec["db"]))
        shard.extra["max_atoms"] = spec["maxatoms"]
    elif k == "records":
        i = 0
        for name in DBS:
            for r in db(name):
                c = {"db": name, "record": r}
                shard.add(c, check_record(c), i)
                i += 1
        shard.exhaustive = True
    elif k == "hyp-vec":
        explore(shard, sum_vector(), check_vector, spec["examples"], seed)
    elif k == "hyp-imp":
        explore(shard, impute_entry(), check_impute, spec["examples"], seed)
    elif k == "pipe-halogen":
        rx = halogen_reactions()
        for i in range(0, len(rx), 8):
            c = pp.fixed_case(rx[i:i + 8])
            shard.add(c, check_pipeline(c), i)
        shard.exhaustive = True
    elif k == "hyp-pipe":
        explore(shard, _pipe_strategy(), check_pipeline, spec["examples"], seed)


def _fn(spec_or_case):
    return None


def shrink_shard(spec, seed, tier, bucket, index, cap_s):
    k = spec["kind"]
    if k == "hyp-vec":
        return shrink(sum_vector(), check_vector, bucket, seed, index, spec["examples"], cap_s)
    if k == "hyp-imp":
        return shrink(impute_entry(), check_impute, bucket, seed, index, spec["examples"], cap_s)
    if k == "hyp-pipe":
        return shrink(_pipe_strategy(), check_pipeline, bucket, seed, index, spec["examples"], cap_s)
    return None


def replay(case, spec):
    if "record" in case:
        return check_record(case).failures
    if "reactions" in case:
        return check_pipeline(case).failures
    if "reactants" in case:
        return check_impute(case).failures
    return check_vector(case).failures


KNOWN_PREDICATES = {}
