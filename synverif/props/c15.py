"""C15 — atom-map removal keeps every molecule chemically identical; no map number survives; rebalancing
outputs never contain atom-map numbers."""
import re

from hypothesis import strategies as st
from rdkit import Chem

from .. import gen, oracle, pipe, pipeprops as pp
from ..runner import CaseResult, case_key, explore, shrink

ID = "C15"
LEVEL = "exploration"
RULE = ("Molecules: every closed-shell corpus molecule and every closed-shell periodic-table species and, for every element, its smallest closed-shell chloride / methyl / hydroxide (enumerated), "
        "Hypothesis-edited molecules (ions, isotopes, hypervalent P/S/halogen, explicit H), each written with a drawn "
        "atom order, optional kekule / all-bonds-explicit / all-H-explicit form and drawn atom-map numbers (1-3 digits, "
        "optionally zero-padded) on a drawn subset of atoms; mixtures and reaction strings of them (1-4 molecules, one case in eight 8-40 molecules; mapped corpus reactions joined 6 and 25 at a time, i.e. strings with hundreds to thousands of map numbers); stereo centres and "
        "double-bond marks from the corpus. Oracle: remove_atom_mapping(s) parses, each dot component is the same "
        "molecule as the original with maps cleared (canonical isomeric SMILES), and no ':<digits>]' remains. Pipeline "
        "shard: mapped reactions through Balancer.rebalance, reaction/input_reaction must be map-free. Non-trivial = "
        ">=1 mapped atom and >=1 of {two-letter element, aromatic bracket atom, isotope, charge, chirality, explicit "
        "aromatic bond, %nn ring closure, bracket atom with H count}; distinct = distinct spelled strings.")
ASSUMPTIONS = [
    "closed-shell molecules only (no radicals, no atomic placeholders, no dummy atoms)",
    "molecule identity = RDKit canonical isomeric SMILES with atom maps cleared",
]

_MAPRE = re.compile(r":\d+\]")


def _rm(s):
    from synrbl.SynUtils.chem_utils import remove_atom_mapping
    return remove_atom_mapping(s)


def features(s):
    f = []
    if _MAPRE.search(s):
        f.append("mapped")
    if re.search(r"\[\d*(?:[A-Z][a-z])", s) and re.search(r"\[\d*(?!Cl|Br)[A-Z][a-z]", s):
        f.append("two-letter")
    if re.search(r"\[\d*(?:Cl|Br)", s):
        f.append("Cl/Br-bracket")
    if re.search(r"\[\d*[cnosp]", s) or "[se" in s:
        f.append("aromatic-bracket")
    if re.search(r"\[\d+[A-Za-z]", s):
        f.append("isotope")
    if re.search(r"\[[^\]]*[+-]", s):
        f.append("charge")
    if "@" in s:
        f.append("chirality")
    if "/" in s or "\\" in s:
        f.append("cis-trans")
    if re.search(r"[a-z\]]:[a-z\[]", s) or re.search(r":\d*[a-z\[]", s.replace(":]", "")):
        f.append("explicit-aromatic-bond")
    if "%" in s:
        f.append("%nn-ring-closure")
    if re.search(r"\[[^\]]*H\d?", s):
        f.append("bracket-H")
    return f


def judge_string(res, original, spelled):
    """original: unmapped reference (mixture or reaction); spelled: the string given to remove_atom_mapping."""
    try:
        out = _rm(spelled)
    except Exception as e:
        res.fail("raises:" + type(e).__name__, "no exception", spelled=spelled, error=str(e))
        return
    if _MAPRE.search(out):
        res.fail("map-survives", "no map number survives", spelled=spelled, out=out)
    sides_in = spelled.split(">>")
    sides_out = out.split(">>")
    if len(sides_in) != len(sides_out):
        res.fail("separator-changed", "same molecules", spelled=spelled, out=out)
        return
    for a, b in zip(sides_in, sides_out):
        pa, pb = a.split("."), b.split(".")
        if len(pa) != len(pb):
            res.fail("component-count", "same molecules", spelled=spelled, out=out)
            return
        for x, y in zip(pa, pb):
            cx = oracle.canon(x)
            cy = oracle.canon(y)
            if cy is None:
                res.fail("unparsable-output", "output parses", component=x, out_component=y, spelled=spelled)
            elif cx != cy:
                hyper = gen.hypervalent_h(x)
                res.fail("molecule-changed:" + ("hypervalent-H" if hyper else "other"), "same molecule",
                         component=x, out_component=y, expected=cx, got=cy)


@st.composite
def spelled_molecule(draw):
    mol = draw(st.one_of(gen.molecule(closed_shell=True, max_heavy=None, periodic=True),
                         gen.molecule(closed_shell=True, max_heavy=None, periodic=True),
                         gen.edited_molecule(base=st.sampled_from(gen.HYPERVALENT_H), max_edits=1),
                         st.sampled_from(gen.periodic_closed_shell(False))))
    sp = draw(gen.respell(mol, maps=True))
    if draw(st.integers(0, 5)) == 0:
        # zero-padded / longer map numbers: rewrite ':n]' textually, keep only if RDKit still reads the same molecule
        pad = draw(st.sampled_from(["0", "00", "1", "10"]))
        sp2 = re.sub(r":(\d+)\]", lambda m_: ":" + pad + m_.group(1) + "]", sp)
        if oracle.canon(sp2) == oracle.canon(sp):
            sp = sp2
    return [mol, sp]


@st.composite
def spelled_mixture(draw):
    # mostly 1-4 molecules; one case in eight is a long string (up to 40 molecules, several hundred mapped atoms):
    # nothing in the code imposes a size limit, so none is assumed
    big = draw(st.integers(0, 7)) == 0
    items = draw(st.lists(spelled_molecule(), min_size=8 if big else 1, max_size=40 if big else 4))
    if draw(st.booleans()) and len(items) >= 2:
        k = draw(st.integers(1, len(items) - 1))
        return {"original": ".".join(i[0] for i in items[:k]) + ">>" + ".".join(i[0] for i in items[k:]),
                "spelled": ".".join(i[1] for i in items[:k]) + ">>" + ".".join(i[1] for i in items[k:])}
    return {"original": ".".join(i[0] for i in items), "spelled": ".".join(i[1] for i in items)}


def check_string_case(case, spec=None):
    res = CaseResult()
    sp = case["spelled"]
    judge_string(res, case["original"], sp)
    f = features(sp)
    res.tag(*f)
    nmaps = len(_MAPRE.findall(sp))
    if nmaps > 256:
        res.tag("mapped-atoms>256")
    elif nmaps > 64:
        res.tag("mapped-atoms>64")
    res.nontrivial = "mapped" in f and len(f) >= 2
    return res


def check_pipeline_case(case, spec=None):
    res = CaseResult()
    rows, _, err = pp.execute(case)
    if err or len(rows) != len(case["reactions"]):
        res.inconclusive = "row count (C05)"
        return res
    res.evals = len(rows)
    for inp, row in zip(case["reactions"], rows):
        for col in ("reaction", "input_reaction"):
            v = row.get(col)
            if isinstance(v, str) and _MAPRE.search(v):
                res.fail("output-has-maps:" + col, "outputs map-free", input=inp, column=col, value=v)
        if oracle.has_atom_map(inp):
            res.nt_keys.append(case_key(inp))
            res.tag("mapped-input:" + (("solved:" + str(row.get("solved_by"))) if row.get("solved") else "declined"))
    return res


def _pipeline_strategy():
    base = pp.closed_shell_rx(gen.any_reaction(max_heavy=30, max_mols=4, weights=(6, 3, 2, 1)))
    return pp.pipeline_case(gen.maybe_respelled(base, 2), 1, 5)


def shards(tier):
    q = tier == "quick"
    out = []
    for i in range(4):
        out.append({"name": "corpus-molecules:%d" % i, "kind": "corpus", "part": i, "of": 4})
    out.append({"name": "corpus-reactions", "kind": "corpus-rxn"})
    out.append({"name": "periodic", "kind": "periodic"})
    for i in range(6 if q else 8):
        out.append({"name": "hyp-strings:%d" % i, "kind": "hyp", "examples": 1500 if q else 20000})
    for i in range(4):
        out.append({"name": "hyp-pipeline:%d" % i, "kind": "hyp-pipe", "examples": 60 if q else 800})
    return out


def _spell_all(mol_smiles):
    """deterministic spellings of one molecule: all atoms mapped, in canonical / kekule / explicit forms"""
    m = Chem.MolFromSmiles(mol_smiles)
    if m is None or m.GetNumAtoms() == 0:
        return
    for a in m.GetAtoms():
        a.SetAtomMapNum(a.GetIdx() + 1)
    yield Chem.MolToSmiles(m)
    yield Chem.MolToSmiles(m, allBondsExplicit=True)
    yield Chem.MolToSmiles(m, allHsExplicit=True)
    try:
        k = Chem.Mol(m)
        Chem.Kekulize(k, clearAromaticFlags=True)
        yield Chem.MolToSmiles(k, kekuleSmiles=True)
    except Exception:
        pass
    for a in m.GetAtoms():
        a.SetAtomMapNum(0)
    yield Chem.MolToSmiles(m, allBondsExplicit=True, allHsExplicit=True)


def run_shard(spec, seed, tier, shard):
    k = spec["kind"]
    if k == "hyp":
        explore(shard, spelled_mixture(), lambda c: check_string_case(c, spec), spec["examples"], seed)
    elif k == "hyp-pipe":
        explore(shard, _pipeline_strategy(), lambda c: check_pipeline_case(c, spec), spec["examples"], seed)
    elif k in ("corpus", "periodic"):
        mols = gen.load_molecules(True) if k == "corpus" else (gen.periodic_closed_shell(False) + gen.periodic_covalent()
                                                               + tuple(gen.HYPERVALENT_H))
        i = 0
        for j, mol in enumerate(mols):
            if k == "corpus" and j % spec["of"] != spec["part"]:
                continue
            for sp in _spell_all(mol):
                if oracle.canon(sp) != oracle.canon(mol):
                    continue
                c = {"original": mol, "spelled": sp}
                shard.add(c, check_string_case(c, spec), i)
                i += 1
        shard.exhaustive = True
    elif k == "corpus-rxn":
        rxs = [r for r in gen.load_reactions("input") if oracle.reaction_closed_shell(r)]
        for i, r in enumerate(rxs):
            c = {"original": r, "spelled": r}
            shard.add(c, check_string_case(c, spec), i)
        # long strings: the mapped corpus reactions joined 6 / 25 at a time (hundreds to thousands of map numbers)
        for width in (6, 25):
            for j in range(0, len(rxs) - width, width * 9):
                chunk = rxs[j:j + width]
                joined = ".".join(x.split(">>")[0] for x in chunk) + ">>" + ".".join(x.split(">>")[1] for x in chunk)
                c = {"original": joined, "spelled": joined}
                r_ = check_string_case(c, spec)
                r_.tag("maps>256" if len(_MAPRE.findall(joined)) > 256 else "maps<=256")
                shard.add(c, r_, 100000 + j)
        shard.exhaustive = True


def shrink_shard(spec, seed, tier, bucket, index, cap_s):
    if spec["kind"] == "hyp":
        return shrink(spelled_mixture(), lambda c: check_string_case(c, spec), bucket, seed, index, spec["examples"], cap_s)
    if spec["kind"] == "hyp-pipe":
        return shrink(_pipeline_strategy(), lambda c: check_pipeline_case(c, spec), bucket, seed, index, spec["examples"], cap_s)
    return None


def replay(case, spec):
    if "reactions" in case:
        return check_pipeline_case(case, spec).failures
    return check_string_case(case, spec).failures


def k15_hypervalent_explicit_h(f):
    """A neutral bracket atom of the organic subset (B,C,N,O,P,S,F,Cl,Br,I) that carries an explicit hydrogen count
    in a valence above the element's default one (e.g. [SH4], C[SH2]C, [PH5], C[IH2]) is written without brackets
    and thereby loses those hydrogens."""
    return f.get("bucket") == "molecule-changed:hypervalent-H"


KNOWN_PREDICATES = {"k15_hypervalent_explicit_h": k15_hypervalent_explicit_h}
