"""C07 — element, hydrogen and charge accounting of a SMILES is exact; carbon label,
side-comparison verdict and difference formula agree with the true compositions."""
import itertools

from hypothesis import strategies as st

from .. import gen, oracle
from ..runner import CaseResult, case_key, explore, shrink

ID = "C07"
LEVEL = "exploration"
RULE = ("Domain A: molecules/mixtures (size-sorted corpus molecules enumerated in full, periodic sweep Z=1..118 "
        "enumerated in full, Hypothesis-edited molecules with ions/isotopes/explicit H, mixtures of 1-4) judged "
        "against the independent composition oracle + additivity; non-trivial = molecule or mixture with >=2 "
        "elements and >=1 implicit hydrogen, or a charged/isotopic/Z>86 species. Domain B: reactions from those "
        "molecules, carbon label / is_carbon_balanced vs oracle carbon counts; non-trivial = both sides contain "
        "carbon. Domain C: all ordered pairs of composition dicts over 3 keys x counts 0..2 x charge "
        "{absent,-2,-1,1,2} (exhaustive; the decomposer never stores a zero charge or a zero count) plus random larger vectors; non-trivial = unequal vectors. "
        "Domain D: batches of 1-6 reactions (ionic sides enriched, components recurring across the batch) through the "
        "pipeline's batch entry point RSMIDecomposer(data=list|DataFrame, parallel in {False, True}).data_decomposer(), "
        "every side against the oracle; non-trivial = side with a net charge. Distinct = "
        "distinct case content (sha1 of the JSON case).")
ASSUMPTIONS = [
    "RDKit parser/sanitiser, periodic table and CalcMolFormula (start-up cross-check of the oracle) are trusted",
    "sign convention of the charge entry of the difference formula is unspecified: only its magnitude is checked",
    "dummy atoms (*) and radicals are outside the input domain (closed-shell molecules; the atomic-number-0 key "
    "'Q' would collide with the charge key)",
]

ELEMS = ["C", "H", "O"]


def _decompose(s):
    from synrbl.SynProcessor import RSMIDecomposer
    return RSMIDecomposer.decompose(s)


def expected_dict(smiles):
    c = oracle.composition(smiles)
    if c is None:
        return None
    d = dict(c[0])
    if c[1] != 0:
        d["Q"] = c[1]
    return d


# ------------------------------------------------------------------ case checks

def check_mixture(parts):
    """parts: list of molecule SMILES forming a dot mixture."""
    r = CaseResult()
    s = ".".join(parts)
    exp = expected_dict(s)
    if exp is None:
        r.inconclusive = "oracle cannot parse"
        return r
    try:
        got = _decompose(s)
    except Exception as e:
        r.fail("decompose-raises:" + type(e).__name__, "composition", smiles=s, error=str(e))
        return r
    got_nz = {k: v for k, v in got.items() if v != 0}
    if got_nz != exp:
        diff = sorted(k for k in set(got_nz) | set(exp) if got_nz.get(k) != exp.get(k))
        kind = "charge" if diff == ["Q"] else ("hydrogen" if diff == ["H"] else "element")
        r.fail("composition-" + kind, "composition", smiles=s, got=got, expected=exp, differing=diff)
    if any(v == 0 for v in got.values()):
        r.fail("zero-entry", "composition", smiles=s, got=got)
    if len(parts) > 1:
        tot = {}
        for p in parts:
            for k, v in _decompose(p).items():
                tot[k] = tot.get(k, 0) + v
        tot = {k: v for k, v in tot.items() if v != 0}
        if tot != got_nz:
            r.fail("additivity", "additivity", smiles=s, whole=got, sum_of_parts=tot)
        r.tag("mixture")
    z86 = any(k not in _KNOWN_SYMS for k in exp if k != "Q")
    charged = "Q" in exp
    iso = "[" in s and any(ch.isdigit() for ch in s.split("[", 1)[1][:3])
    if charged:
        r.tag("charged")
    if z86:
        r.tag("Z>86")
    if iso:
        r.tag("isotope")
    nelem = len([k for k in exp if k != "Q"])
    r.nontrivial = (nelem >= 2 and exp.get("H", 0) > 0) or charged or z86 or iso
    return r


_PT_SYMS = None
_KNOWN_SYMS = set("H He Li Be B C N O F Ne Na Mg Al Si P S Cl Ar K Ca Sc Ti V Cr Mn Fe Co Ni Cu Zn Ga Ge As Se Br "
                  "Kr Rb Sr Y Zr Nb Mo Tc Ru Rh Pd Ag Cd In Sn Sb Te I Xe Cs Ba La Ce Pr Nd Pm Sm Eu Gd Tb Dy Ho "
                  "Er Tm Yb Lu Hf Ta W Re Os Ir Pt Au Hg Tl Pb Bi Po At Rn".split())


def check_carbon(rxn):
    from synrbl.SynProcessor import CheckCarbonBalance
    from synrbl.SynMCSImputer.utils import is_carbon_balanced
    r = CaseResult()
    sp = oracle.split_reaction(rxn)
    ca, cb = oracle.count_element(sp[0], "C"), oracle.count_element(sp[1], "C")
    if ca is None or cb is None:
        r.inconclusive = "oracle cannot parse"
        return r
    exp = "balanced" if ca == cb else ("products" if ca > cb else "reactants")
    # the counter is generic (atom_type argument): ask for other elements first, then for carbon, in one process -
    # whatever it memoises for one element must not leak into the answer for another
    for el in ("O", "N", "Cl"):
        ea, eb = oracle.count_element(sp[0], el), oracle.count_element(sp[1], el)
        e_exp = "balanced" if ea == eb else ("products" if ea > eb else "reactants")
        e_got = CheckCarbonBalance([{"reaction": rxn}], rsmi_col="reaction", symbol=">>", atom_type=el,
                                   n_jobs=1).check_carbon_balance()[0]["carbon_balance_check"]
        if e_got != e_exp:
            r.fail("element-label:" + el, "carbon label", reaction=rxn, element=el, got=e_got, expected=e_exp, counts=[ea, eb])
    chk = CheckCarbonBalance([{"reaction": rxn}], rsmi_col="reaction", symbol=">>", atom_type="C", n_jobs=1)
    got = chk.check_carbon_balance()[0]["carbon_balance_check"]
    if got != exp:
        r.fail("carbon-label", "carbon label", reaction=rxn, got=got, expected=exp, carbons=[ca, cb])
    # a second reaction through the same instance (smiles cache shared across rows)
    rev = sp[1] + ">>" + sp[0]
    chk2 = CheckCarbonBalance([{"reaction": rxn}, {"reaction": rev}, {"reaction": rxn}], rsmi_col="reaction",
                              symbol=">>", atom_type="C", n_jobs=1)
    got2 = [x["carbon_balance_check"] for x in chk2.check_carbon_balance()]
    exp_rev = "balanced" if ca == cb else ("products" if cb > ca else "reactants")
    if got2 != [exp, exp_rev, exp]:
        r.fail("carbon-label-cache", "carbon label", reaction=rxn, got=got2, expected=[exp, exp_rev, exp])
    try:
        icb = is_carbon_balanced(rxn)
        if icb != (ca == cb):
            r.fail("is-carbon-balanced", "carbon label", reaction=rxn, got=icb, carbons=[ca, cb])
    except Exception as e:
        r.fail("is-carbon-balanced-raises", "carbon label", reaction=rxn, error=str(e))
    # the whole-reaction decomposition must agree with the sides as well
    r.nontrivial = ca > 0 and cb > 0
    r.tag("carbon:" + exp)
    return r


def verdict_expected(R, P):
    """Fully determined expectations (None = not determined by the statement)."""
    keys = set(R) | set(P)
    g = lambda d, k: d.get(k, 0)
    if all(g(R, k) == g(P, k) for k in keys):
        return "Balance"
    el = [k for k in keys if k != "Q"]
    if g(R, "Q") == g(P, "Q"):
        ge = all(g(R, k) >= g(P, k) for k in el)
        le = all(g(R, k) <= g(P, k) for k in el)
        return "Products" if ge else ("Reactants" if le else "Both")
    return None


def check_compare(R, P):
    from synrbl.SynProcessor import RSMIComparator
    r = CaseResult()
    R = {k: v for k, v in R.items()}
    P = {k: v for k, v in P.items()}
    keys = set(R) | set(P)
    g = lambda d, k: d.get(k, 0)
    try:
        v = RSMIComparator.compare_dicts(dict(R), dict(P))
        d = RSMIComparator.diff_dicts(dict(R), dict(P))
    except Exception as e:
        r.fail("compare-raises", "verdict", R=R, P=P, error=str(e))
        return r
    equal = all(g(R, k) == g(P, k) for k in keys)
    el = [k for k in keys if k != "Q"]
    if (v == "Balance") != equal:
        r.fail("verdict-balance", "verdict", R=R, P=P, got=v, equal=equal)
    elif v == "Products" and any(g(R, k) < g(P, k) for k in el):
        r.fail("verdict-products", "verdict", R=R, P=P, got=v)
    elif v == "Reactants" and any(g(R, k) > g(P, k) for k in el):
        r.fail("verdict-reactants", "verdict", R=R, P=P, got=v)
    elif v not in ("Balance", "Products", "Reactants", "Both"):
        r.fail("verdict-unknown", "verdict", R=R, P=P, got=v)
    else:
        exp = verdict_expected(R, P)
        if exp is not None and v != exp:
            r.fail("verdict-determined", "verdict", R=R, P=P, got=v, expected=exp)
    expd = {k: abs(g(R, k) - g(P, k)) for k in keys if g(R, k) != g(P, k)}
    # elements: exact non-negative |R-P|; charge entry: magnitude only (sign convention unspecified)
    gotd = {k: (abs(x) if k == "Q" else x) for k, x in d.items() if x != 0}
    if gotd != expd:
        r.fail("diff-formula", "difference formula", R=R, P=P, got=d, expected=expd)
    r.nontrivial = not equal
    r.tag("verdict:" + str(v))
    return r


def reaction_check(rxn):
    """decomposer on both sides + comparator agree with oracle on a whole reaction."""
    from synrbl.SynProcessor import RSMIComparator
    r = CaseResult()
    sp = oracle.split_reaction(rxn)
    ea, eb = expected_dict(sp[0]), expected_dict(sp[1])
    if ea is None or eb is None:
        r.inconclusive = "oracle cannot parse"
        return r
    ga, gb = _decompose(sp[0]), _decompose(sp[1])
    v = RSMIComparator.compare_dicts(ga, gb)
    ob = oracle.balanced(rxn)
    if (v == "Balance") != ob:
        r.fail("reaction-verdict", "verdict", reaction=rxn, got=v, oracle_balanced=ob)
    return r


def batch_check(case):
    """the batch entry point used by the pipeline (RSMIDecomposer(data=...).data_decomposer()): every side of every
    reaction of the batch against the oracle, list-of-dicts and DataFrame input, sequential and joblib"""
    from synrbl.SynProcessor import RSMIDecomposer
    r = CaseResult()
    rows = []
    for rx in case["batch"]:
        sp = oracle.split_reaction(rx)
        if sp is None or not sp[0] or not sp[1] or expected_dict(sp[0]) is None or expected_dict(sp[1]) is None:
            continue
        rows.append({"reactants": sp[0], "products": sp[1]})
    if not rows:
        r.inconclusive = "no parsable reaction in batch"
        return r
    data = rows
    if case.get("frame"):
        import pandas as pd
        data = pd.DataFrame(rows)
    try:
        ra, pa = RSMIDecomposer(smiles=None, data=data, reactant_col="reactants", product_col="products",
                                parallel=bool(case.get("parallel")), n_jobs=2, verbose=0).data_decomposer()
    except Exception as e:
        r.fail("batch-decompose-raises:" + type(e).__name__, "composition", batch=case["batch"], error=str(e)[:200])
        return r
    r.evals = 2 * len(rows)
    if len(ra) != len(rows) or len(pa) != len(rows):
        r.fail("batch-length", "one composition per side", n=len(rows), got=[len(ra), len(pa)], batch=case["batch"])
        return r
    for i, row in enumerate(rows):
        for side, got in (("reactants", ra[i]), ("products", pa[i])):
            exp = expected_dict(row[side])
            if dict(got) != exp:
                r.fail("batch-composition-differs", "composition", index=i, side=side, smiles=row[side],
                       got=dict(got), expected=exp, frame=bool(case.get("frame")), parallel=bool(case.get("parallel")))
            if "Q" in exp:
                r.tag("batch-side-charged:" + ("-" if exp["Q"] < 0 else "+"))
                r.nt_keys.append(case_key(row[side]))
    if len(set(m for row in rows for m in (row["reactants"] + "." + row["products"]).split("."))) < \
            sum(len((row["reactants"] + "." + row["products"]).split(".")) for row in rows):
        r.tag("batch-repeats-a-component")
    return r


# --------------------------------------------------------------------- shards

def shards(tier):
    q = tier == "quick"
    out = []
    nm = 8
    for i in range(nm):
        out.append({"name": "corpus-molecules:%d" % i, "kind": "corpus", "part": i, "of": nm})
    out.append({"name": "periodic", "kind": "periodic"})
    out.append({"name": "comparator-exhaustive", "kind": "cmp-exh"})
    nh = 4 if q else 10
    for i in range(nh):
        out.append({"name": "hyp-mixtures:%d" % i, "kind": "hyp-mix", "examples": 500 if q else 4000})
    for i in range(2 if q else 4):
        out.append({"name": "hyp-carbon:%d" % i, "kind": "hyp-carbon", "examples": 400 if q else 3000})
    for i in range(2 if q else 4):
        out.append({"name": "hyp-compare:%d" % i, "kind": "hyp-cmp", "examples": 2000 if q else 20000})
    for i in range(2 if q else 4):
        out.append({"name": "hyp-batch:%d" % i, "kind": "hyp-batch", "examples": 250 if q else 2500})
    if not q:
        out.append({"name": "corpus-reactions", "kind": "corpus-rxn"})
    return out


def _dict_strategy():
    syms = ["C", "H", "O", "N", "Cl", "Na", "U", "S"]
    el = st.dictionaries(st.sampled_from(syms), st.integers(1, 6), max_size=5)
    q = st.one_of(st.none(), st.integers(-3, 3).filter(lambda x: x != 0))
    def mk(t):
        d, c = t
        d = dict(d)
        if c is not None:
            d["Q"] = c
        return d
    return st.tuples(el, q).map(mk)


def strategy(spec):
    k = spec["kind"]
    if k == "hyp-mix":
        mol = gen.molecule(closed_shell=True, max_heavy=None, periodic=True)
        return st.lists(mol, min_size=1, max_size=4)
    if k == "hyp-carbon":
        mol = gen.molecule(closed_shell=True, max_heavy=40, periodic=True)
        side = st.lists(mol, min_size=1, max_size=3).map(".".join)
        return st.one_of(st.tuples(side, side).map(lambda t: t[0] + ">>" + t[1]),
                         gen.any_reaction().map(lambda t: t[0]))
    if k == "hyp-batch":
        mol = gen.molecule(closed_shell=True, max_heavy=40, periodic=True)
        ion = st.sampled_from(["[OH-]", "[Na+]", "[Cl-]", "CC(=O)[O-]", "[NH4+]", "[O-]C([O-])=O", "[Ca+2]", "C[N+](C)(C)C",
                               "[O-]S([O-])(=O)=O", "[H+]", "[Br-]", "CC[O-]", "[K+]", "[N-]=[N+]=[N-]"])
        side = st.lists(st.one_of(mol, mol, ion), min_size=1, max_size=4).map(".".join)
        rx = st.one_of(st.tuples(side, side).map(lambda t: t[0] + ">>" + t[1]), gen.any_reaction().map(lambda t: t[0]))
        return st.fixed_dictionaries({"batch": st.lists(rx, min_size=1, max_size=6), "frame": st.booleans(),
                                      "parallel": st.integers(0, 4).map(lambda x: x == 0)})
    if k == "hyp-cmp":
        base = _dict_strategy()
        # correlated pairs: second dict is a small perturbation of the first half of the time
        @st.composite
        def pair(draw):
            a = draw(base)
            if draw(st.booleans()):
                b = dict(a)
                for _ in range(draw(st.integers(0, 3))):
                    key = draw(st.sampled_from(["C", "H", "O", "N", "Cl", "Q"]))
                    nv = b.get(key, 0) + draw(st.integers(-2, 2))
                    if nv == 0 or (key != "Q" and nv < 0):
                        b.pop(key, None)
                    else:
                        b[key] = nv
            else:
                b = draw(base)
            return [a, b]
        return pair()
    raise ValueError(k)


def check_case(case, spec):
    k = spec["kind"]
    if k in ("hyp-mix", "corpus", "periodic"):
        return check_mixture(case)
    if k in ("hyp-carbon", "corpus-rxn"):
        r = check_carbon(case)
        r2 = reaction_check(case)
        r.failures.extend(r2.failures)
        return r
    if k in ("hyp-cmp", "cmp-exh"):
        return check_compare(case[0], case[1])
    if k == "hyp-batch":
        return batch_check(case)
    raise ValueError(k)


def _cmp_domain():
    vals = []
    for counts in itertools.product([0, 1, 2], repeat=3):
        for q in (None, -2, -1, 1, 2):  # decomposer stores Q only when non-zero
            d = {e: c for e, c in zip(ELEMS, counts) if c}
            if q is not None:
                d["Q"] = q
            vals.append(d)
    return vals


def run_shard(spec, seed, tier, shard):
    k = spec["kind"]
    if k == "corpus":
        bad = oracle.selfcheck(gen.load_molecules(False)[:200])
        if bad:
            raise RuntimeError("oracle self-check failed: %r" % bad[:3])
        mols = gen.load_molecules(False)
        for i, m in enumerate(mols):
            if i % spec["of"] == spec["part"]:
                if oracle.parse(m) is None:
                    continue
                shard.add([m], check_mixture([m]), i)
        shard.exhaustive = True
    elif k == "periodic":
        sp = gen.periodic_species()
        for i, m in enumerate(sp):
            shard.add([m], check_mixture([m]), i)
        for i, m in enumerate(gen.periodic_covalent()):
            shard.add([m], check_mixture([m]), 50000 + i)
        # pairs of heavy species must not collapse into one key
        heavy = [s for s in sp if s.startswith("[") and s[1:3].strip("]+-H0123456789") and s.count("H") == 0][-80:]
        for i, (a, b) in enumerate(itertools.combinations(heavy[::4], 2)):
            shard.add([a, b], check_mixture([a, b]), 100000 + i)
        shard.exhaustive = True
    elif k == "cmp-exh":
        vals = _cmp_domain()
        i = 0
        for a in vals:
            for b in vals:
                shard.add([a, b], check_compare(a, b), i)
                i += 1
        shard.exhaustive = True
        shard.extra["pairs"] = i
    elif k == "corpus-rxn":
        for i, rx in enumerate(gen.load_reactions("input") + gen.load_reactions("balanced")):
            shard.add(rx, check_case(rx, spec), i)
        shard.exhaustive = True
    else:
        explore(shard, strategy(spec), lambda c: check_case(c, spec), spec["examples"], seed)


def shrink_shard(spec, seed, tier, bucket, index, cap_s):
    if spec["kind"] in ("corpus", "periodic", "cmp-exh", "corpus-rxn"):
        return None  # enumerations: the smallest collected case is used
    return shrink(strategy(spec), lambda c: check_case(c, spec), bucket, seed, index, spec["examples"], cap_s)


def replay(case, spec):
    kind = spec.get("kind")
    if kind is None:
        kind = "hyp-batch" if isinstance(case, dict) and "batch" in case else "hyp-cmp" if isinstance(case, list) and case and isinstance(case[0], dict) else (
            "hyp-carbon" if isinstance(case, str) else "hyp-mix")
    return check_case(case, dict(spec, kind=kind)).failures


KNOWN_PREDICATES = {}
