"""C09 — fragment merging conserves atoms and its reported rules explain the result."""
import functools
import json
import os
from collections import Counter

from hypothesis import strategies as st
from rdkit import Chem

from .. import gen, oracle
from ..runner import CaseResult, case_key, explore, shrink

ID = "C09"
LEVEL = "exploration"
RULE = ("(molecule, acyclic single bond) pairs over corpus and Hypothesis-edited molecules (P=O, S-X, N-O, N-halogen, "
        "Si/B/Mg/Zn, charged and explicit-H boundary atoms): the bond is cut, both ends are H-capped, fragments are "
        "written to SMILES and the boundary index is recovered through _smilesAtomOutputOrder (the pipeline's route); "
        "CompoundSet is built with src_mol = the uncut molecule and the true neighbour indices. Modes: two-fragment "
        "merge; one-fragment completion (either fragment); fragment + one or two pass-through 'catalyst' compounds (water / alcohol "
        "/ amine / other) in a drawn order of the compound set. Oracle: two-fragment: non-isomeric canonical SMILES of the result == the original unless a "
        "restriction rule is reported, then == the two H-capped fragments; one-fragment: result == fragment bonded at "
        "the boundary atom to the compound of the reported expand rule (rebuilt independently from expand_rules.json; "
        "bond order from the reported merge rule in merge_rules.json), or the fragment unchanged if no expand rule is "
        "reported; always: result parses, no open boundary, carbon count preserved, heavy-atom multiset == fragments "
        "+ compounds of the reported expand rules. NotImplementedError / ValueError declines are not failures. "
        "Non-trivial = cut bond between two heavy atoms with >=1 hetero end, or a boundary atom with explicit H / "
        "charge; distinct = distinct (molecule, bond, mode).")
ASSUMPTIONS = [
    "stereo marks are not part of the claim: comparison on non-isomeric canonical SMILES",
    "RDKit trusted for sanitisation and canonical SMILES",
    "rule configuration files are read independently (json) to rebuild the expected product",
]

RESTRICTION = {"bond restriction", "S bond restriction"}


@functools.lru_cache(maxsize=None)
def rule_config():
    import synrbl.SynMCSImputer as pkg
    d = os.path.dirname(pkg.__file__)
    merge = {r["name"]: r for r in json.load(open(os.path.join(d, "merge_rules.json")))}
    expand = {r["name"]: r for r in json.load(open(os.path.join(d, "expand_rules.json")))}
    comp = {r["name"]: r for r in json.load(open(os.path.join(d, "compound_rules.json")))}
    return merge, expand, comp


def nonisomeric(smiles):
    return oracle.canon(smiles, isomeric=False)


def cut(mol, bond_idx):
    """-> [(fragment smiles, boundary index in that smiles' atom order, src index of boundary, src index of neighbour)]*2"""
    bond = mol.GetBondWithIdx(bond_idx)
    order = {Chem.BondType.SINGLE: 1, Chem.BondType.DOUBLE: 2}[bond.GetBondType()]
    a, b = bond.GetBeginAtomIdx(), bond.GetEndAtomIdx()
    rw = Chem.RWMol(mol)
    rw.RemoveBond(a, b)
    for i in (a, b):
        at = rw.GetAtomWithIdx(i)
        at.SetNumExplicitHs(at.GetTotalNumHs() + order)
        at.SetNoImplicit(True)
    m = rw.GetMol()
    charges = [x.GetFormalCharge() for x in m.GetAtoms()]
    Chem.SanitizeMol(m)
    if charges != [x.GetFormalCharge() for x in m.GetAtoms()]:
        raise ValueError("sanitisation re-wrote the charge model of the cut molecule (generator artefact)")
    out = []
    for f in Chem.GetMolFrags(m):
        anchor = a if a in f else b
        other = b if anchor == a else a
        em = Chem.RWMol(m)
        for i in sorted(set(range(m.GetNumAtoms())) - set(f), reverse=True):
            em.RemoveAtom(i)
        sub = em.GetMol()
        sub_idx = sorted(f).index(anchor)
        smi = Chem.MolToSmiles(sub)
        order = list(sub.GetPropsAsDict(True, True)["_smilesAtomOutputOrder"])
        out.append((smi, order.index(sub_idx), anchor, other))
    if len(out) != 2:
        raise ValueError("bond is in a ring")
    return out


def cuttable_bonds(mol):
    return [b.GetIdx() for b in mol.GetBonds() if not b.IsInRing() and b.GetBondType() == Chem.BondType.SINGLE
            and b.GetBeginAtom().GetAtomicNum() > 1 and b.GetEndAtom().GetAtomicNum() > 1]


def cuttable_any(mol):
    """acyclic single or double bonds between heavy atoms (cross mode only)"""
    return [b.GetIdx() for b in mol.GetBonds() if not b.IsInRing()
            and b.GetBondType() in (Chem.BondType.SINGLE, Chem.BondType.DOUBLE)
            and b.GetBeginAtom().GetAtomicNum() > 1 and b.GetEndAtom().GetAtomicNum() > 1]


def attach(frag_smiles, idx, compound_smiles, cidx, order):
    """independent rebuild: fragment (boundary atom idx, H-capped) bonded to compound atom cidx with given bond order"""
    f = Chem.MolFromSmiles(frag_smiles)
    c = Chem.MolFromSmiles(compound_smiles)
    n = f.GetNumAtoms()
    rw = Chem.RWMol(Chem.CombineMols(f, c))
    for i in (idx, n + cidx):
        at = rw.GetAtomWithIdx(i)
        h = at.GetTotalNumHs()
        at.SetNoImplicit(True)
        at.SetNumExplicitHs(max(0, h - order))
    rw.AddBond(idx, n + cidx, {1: Chem.BondType.SINGLE, 2: Chem.BondType.DOUBLE}[order])
    m = rw.GetMol()
    Chem.SanitizeMol(m)
    return Chem.MolToSmiles(m, isomericSmiles=False)


def heavy_multiset(smiles):
    c = oracle.composition(smiles)
    if c is None:
        return None
    return Counter({k: v for k, v in c[0].items() if k != "H"})


def _renumbered(smiles, keys):
    """-> (Mol whose atoms are renumbered by the drawn sort keys, map: index in MolFromSmiles(smiles) -> new index)"""
    m = Chem.MolFromSmiles(smiles)
    n = m.GetNumAtoms()
    new_order = sorted(range(n), key=lambda i: (keys[i % len(keys)], i))
    pos = {old: new for new, old in enumerate(new_order)}
    return Chem.RenumberAtoms(m, new_order), pos


def check_case(case, spec=None):
    from synrbl.SynMCSImputer.structure import CompoundSet
    from synrbl.SynMCSImputer.merge import merge
    res = CaseResult()
    m0 = Chem.MolFromSmiles(case["smiles"])
    if m0 is None:
        res.inconclusive = "unparsable"
        return res
    for a in m0.GetAtoms():
        a.SetAtomMapNum(0)
    src = Chem.MolToSmiles(m0)
    mol = Chem.MolFromSmiles(src)
    if case["mode"] == "cross":
        return check_cross(case, res)
    bonds = cuttable_bonds(mol)
    if not bonds:
        res.inconclusive = "no acyclic single bond"
        return res
    bidx = bonds[case["bond"] % len(bonds)]
    try:
        (s1, i1, a1, o1), (s2, i2, a2, o2) = cut(mol, bidx)
    except Exception:
        res.inconclusive = "cut failed (generator)"
        return res
    mode = case["mode"]
    bond = mol.GetBondWithIdx(bidx)
    ends = (bond.GetBeginAtom(), bond.GetEndAtom())
    hetero = any(e.GetSymbol() != "C" for e in ends)
    special = any(e.GetFormalCharge() != 0 or e.GetNumExplicitHs() > 0 for e in ends)
    res.nontrivial = hetero or special
    res.tag("mode:" + mode, "bond:" + "-".join(sorted(e.GetSymbol() for e in ends)))
    cs = CompoundSet()
    frags = []
    catalyst = None
    keys = case.get("mol_keys")
    if keys:
        # the API also takes rdkit Mol objects; their atom numbering is the caller's (here a drawn renumbering) and the
        # boundary / neighbour indices refer to it
        res.tag("form:mol-objects")

    def add(frag, idx, nb):
        if not keys:
            c = cs.add_compound(frag, src_mol=src)
            c.add_boundary(idx, neighbor_index=nb)
            return c
        fm, fpos = _renumbered(frag, keys)
        sm, spos = _renumbered(src, keys[1:] + keys[:1])
        c = cs.add_compound(fm, src_mol=sm)
        c.add_boundary(fpos[idx], neighbor_index=spos[nb])
        return c
    try:
        if mode == "two":
            c1 = add(s1, i1, o1)
            c2 = add(s2, i2, o2)
            frags = [s1, s2]
        elif mode in ("oneA", "oneB", "catalyst"):
            s, i, o = (s1, i1, o1) if mode != "oneB" else (s2, i2, o2)
            frags = [s]
            if mode == "catalyst":
                # fragment + one or two pass-through compounds (water, alcohols, amines ...) in a drawn order
                catalyst = case.get("catalyst", "O")
                order = case.get("order") or ["frag", "cat"]
                extras = {"cat": catalyst, "cat2": case.get("catalyst2")}
                for slot in order:
                    if slot == "frag":
                        c1 = add(s, i, o)
                    elif extras.get(slot):
                        cs.add_compound(extras[slot], src_mol=extras[slot])
            else:
                c1 = add(s, i, o)
    except Exception as e:
        res.inconclusive = "compound set construction rejected: " + type(e).__name__
        return res
    try:
        cm = merge(cs)
    except (NotImplementedError, ValueError) as e:
        res.tag("declined:" + str(e)[:40])
        return res
    except Exception as e:
        res.fail("merge-raises:" + type(e).__name__, "no unexpected exception", smiles=src, bond=bidx, mode=mode,
                 frags=frags, error=str(e)[:300])
        return res
    rules = [r.name for r in cm.rules]
    for r in rules:
        res.tag("rule:" + r)
    merge_cfg, expand_cfg, comp_cfg = rule_config()
    try:
        out_smiles = cm.smiles
    except Exception as e:
        res.fail("result-unprintable", "valid molecule", smiles=src, bond=bidx, mode=mode, error=str(e)[:200])
        return res
    out = nonisomeric(out_smiles)
    detail = dict(smiles=src, bond=bidx, mode=mode, fragments=frags, result=out_smiles, rules=rules,
                  boundary=[(s1, i1), (s2, i2)], catalyst=catalyst, mol_keys=keys)
    if out is None or oracle.parse(out_smiles) is None:
        res.fail("result-unparsable", "valid molecule", **detail)
        return res
    try:
        Chem.SanitizeMol(Chem.MolFromSmiles(out_smiles))
    except Exception:
        res.fail("result-not-sanitisable", "valid molecule", **detail)
    if len(cm.boundaries) != 0:
        res.fail("open-boundary-left", "no open attachment point", n=len(cm.boundaries), **detail)
    unknown = [r for r in rules if r not in merge_cfg and r not in expand_cfg and r not in comp_cfg]
    if unknown:
        res.fail("unknown-rule-reported", "reported rules explain", unknown=unknown, **detail)
        return res
    exp_rules = [r for r in rules if r in expand_cfg]
    mrg_rules = [r for r in rules if r in merge_cfg]
    # conservation clauses
    parts = list(frags)
    water_removed = "remove_water_catalyst" in rules
    for extra in ([catalyst] if catalyst is not None else []) + ([case.get("catalyst2")] if case.get("catalyst2") and "cat2" in (case.get("order") or []) else []):
        if extra == "O" and water_removed:
            continue   # the reported compound rule says the spectator water was dropped
        parts.append(extra)
    exp_heavy = Counter()
    for p in parts:
        exp_heavy.update(heavy_multiset(p))
    for r in exp_rules:
        exp_heavy.update(heavy_multiset(expand_cfg[r]["compound"]["smiles"]))
    got_heavy = heavy_multiset(out_smiles)
    if got_heavy != exp_heavy:
        res.fail("heavy-atoms-differ", "heavy atoms = fragments + named compounds", expected=dict(exp_heavy),
                 got=dict(got_heavy), **detail)
    if got_heavy.get("C", 0) != sum(heavy_multiset(p).get("C", 0) for p in parts):
        res.fail("carbon-count-differs", "carbon count preserved", **detail)
    # structural clauses
    if mode == "two":
        if set(rules) & RESTRICTION:
            exp = nonisomeric(s1 + "." + s2)
            if out != exp:
                res.fail("restriction-result-differs", "restriction => fragments side by side", expected=exp, **detail)
        elif exp_rules:
            # unequal-boundary path does not occur with one boundary each; an expand rule here is unexplained
            res.fail("expand-in-two-fragment-merge", "reported rules explain", **detail)
        else:
            exp = nonisomeric(src)
            if out != exp:
                res.fail("not-reconstructed:" + "+".join(mrg_rules), "original reconstructed", expected=exp, **detail)
    elif mode in ("oneA", "oneB"):
        s, i = frags[0], (i1 if mode == "oneA" else i2)
        if not exp_rules:
            exp = nonisomeric(s)
            if out != exp:
                res.fail("unexpanded-fragment-changed", "fragment unchanged without expand rule", expected=exp, **detail)
        elif len(exp_rules) == 1 and len(mrg_rules) == 1:
            comp = expand_cfg[exp_rules[0]]["compound"]
            btxt = merge_cfg[mrg_rules[0]].get("bond")
            if btxt is None:
                exp = nonisomeric(s + "." + comp["smiles"])
            else:
                try:
                    exp = attach(s, i, comp["smiles"], comp["index"], {"single": 1, "double": 2}[btxt])
                except Exception as e:
                    exp = "<oracle cannot build: %s>" % type(e).__name__
            if exp.startswith("<"):
                res.tag("oracle-cannot-rebuild")
            elif out != exp:
                res.fail("completion-differs:" + exp_rules[0], "fragment + named compound", expected=exp, **detail)
        else:
            res.fail("rules-do-not-explain", "reported rules explain", **detail)
    return res


CROSS_A = ["CC(C)=O", "CC=O", "O=Cc1ccccc1", "CC(=O)OC", "CC(O)=O", "CC(N)=O", "CC(C)O", "Oc1ccccc1", "C=CO", "CC(=O)c1ccccc1",
           "C=Cc1ccccc1", "CC=C", "C=C", "O=C1CCCCC1=O", "CCOC(=O)CC(C)=O", "OCC=O", "NC(=O)c1ccccc1", "CS(C)=O"]
CROSS_B = ["c1ccccc1P(c1ccccc1)c1ccccc1", "c1ccccc1P(=O)(c1ccccc1)c1ccccc1", "CP(C)C", "COP(=O)(OC)OC", "CP(=O)(O)O",
           "c1ccccc1P(c1ccccc1)(c1ccccc1)=C", "CP(C)(C)=O", "N#[N+][CH-]C(=O)OC", "[N-]=[N+]=CC(=O)OC", "CP(Cl)Cl",
           "C[N+]#N", "c1ccccc1[N+]#N", "CC[N+]#N", "C=[N+]=[N-]", "CCP(=O)(CC)CC", "OP(O)O", "ClP(Cl)Cl", "CSC", "CS(=O)Cl", "CN", "CCl", "C[Mg]Br", "CB(O)O"]


def check_cross(case, res):
    """two fragments from two different molecules (as in the pipeline): conservation clauses only"""
    from synrbl.SynMCSImputer.structure import CompoundSet
    from synrbl.SynMCSImputer.merge import merge
    picked = []
    for key, bkey, fkey in (("smiles", "bond", "fragA"), ("smiles2", "bond2", "fragB")):
        m = Chem.MolFromSmiles(case[key])
        if m is None:
            res.inconclusive = "unparsable"
            return res
        src = Chem.MolToSmiles(m)
        mol = Chem.MolFromSmiles(src)
        bonds = cuttable_any(mol)
        if not bonds:
            res.inconclusive = "no acyclic bond"
            return res
        try:
            fr = cut(mol, bonds[case[bkey] % len(bonds)])
        except Exception:
            res.inconclusive = "cut failed (generator)"
            return res
        s, i, a, o = fr[case.get(fkey, 0) % 2]
        picked.append((s, i, o, src))
    res.tag("mode:cross")
    res.nontrivial = True
    cs = CompoundSet()
    try:
        for s, i, o, src in picked:
            c = cs.add_compound(s, src_mol=src)
            c.add_boundary(i, neighbor_index=o)
    except Exception as e:
        res.inconclusive = "compound set construction rejected: " + type(e).__name__
        return res
    detail = dict(case=case, fragments=[(p[0], p[1]) for p in picked], sources=[p[3] for p in picked])
    try:
        cm = merge(cs)
    except (NotImplementedError, ValueError, AssertionError) as e:
        res.tag("declined:" + type(e).__name__)
        return res
    except Exception as e:
        res.fail("merge-raises:" + type(e).__name__, "no unexpected exception", error=str(e)[:300], **detail)
        return res
    rules = [r.name for r in cm.rules]
    for r in rules:
        res.tag("rule:" + r)
    merge_cfg, expand_cfg, comp_cfg = rule_config()
    try:
        out_smiles = cm.smiles
        ok = oracle.parse(out_smiles) is not None
    except Exception:
        ok = False
        out_smiles = None
    detail.update(result=out_smiles, rules=rules)
    if not ok:
        res.fail("result-unparsable", "valid molecule", **detail)
        return res
    if len(cm.boundaries) != 0:
        res.fail("open-boundary-left", "no open attachment point", **detail)
    exp_heavy = Counter()
    for p in picked:
        exp_heavy.update(heavy_multiset(p[0]))
    for r in rules:
        if r in expand_cfg:
            exp_heavy.update(heavy_multiset(expand_cfg[r]["compound"]["smiles"]))
    got = heavy_multiset(out_smiles)
    if got != exp_heavy:
        res.fail("heavy-atoms-differ", "heavy atoms = fragments + named compounds", expected=dict(exp_heavy),
                 got=dict(got), **detail)
    return res


@st.composite
def cross_case(draw):
    a = draw(st.one_of(st.sampled_from(CROSS_A), gen.molecule(True, 20, False)))
    b = draw(st.one_of(st.sampled_from(CROSS_B), st.sampled_from(CROSS_B), gen.molecule(True, 20, False)))
    if draw(st.booleans()):
        a, b = b, a
    return {"smiles": a, "bond": draw(st.integers(0, 40)), "fragA": draw(st.integers(0, 1)), "smiles2": b,
            "bond2": draw(st.integers(0, 40)), "fragB": draw(st.integers(0, 1)), "mode": "cross"}


@st.composite
def cut_case(draw, max_heavy=30):
    if draw(st.integers(0, 5)) == 0:
        return draw(cross_case())
    s = draw(st.one_of(gen.molecule(True, max_heavy, False), gen.edited_molecule(max_heavy=max_heavy),
                       gen.edited_molecule(max_heavy=max_heavy, max_edits=4)))
    bond = draw(st.integers(0, 60))
    mode = draw(st.sampled_from(["two", "two", "oneA", "oneB", "catalyst"]))
    c = {"smiles": s, "bond": bond, "mode": mode}
    if draw(st.integers(0, 3)) == 0:
        c["mol_keys"] = draw(st.lists(st.integers(0, 9), min_size=3, max_size=12))
    if mode == "catalyst":
        cats = ["O", "O", "CO", "CCO", "c1ccncc1", "OCCO", "CC(C)O", "[Pd]", "CN(C)C", "CCN"]
        c["catalyst"] = draw(st.sampled_from(cats))
        if draw(st.booleans()):
            c["catalyst2"] = draw(st.sampled_from(cats))
            c["order"] = list(draw(st.permutations(["frag", "cat", "cat2"])))
        else:
            c["order"] = list(draw(st.permutations(["frag", "cat"])))
    return c


def shards(tier):
    q = tier == "quick"
    out = [{"name": "hyp:%d" % i, "kind": "hyp", "examples": 1200 if q else 15000} for i in range(10)]
    for i in range(6):
        out.append({"name": "corpus-cuts:%d" % i, "kind": "corpus", "part": i, "of": 6, "stride": 6 if q else 1})
    return out


def run_shard(spec, seed, tier, shard):
    if spec["kind"] == "hyp":
        explore(shard, cut_case(), lambda c: check_case(c, spec), spec["examples"], seed)
    else:
        i = 0
        mols = gen.load_molecules(True, 40)
        for j, s in enumerate(mols):
            if j % spec["of"] != spec["part"] or (j // spec["of"]) % spec["stride"] != 0:
                continue
            m = Chem.MolFromSmiles(s)
            if m is None:
                continue
            nb = len(cuttable_bonds(Chem.MolFromSmiles(Chem.MolToSmiles(m))))
            for b in range(nb):
                for mode in ("two", "oneA", "oneB"):
                    c = {"smiles": s, "bond": b, "mode": mode}
                    shard.add(c, check_case(c, spec), i)
                    i += 1
        shard.exhaustive = spec["stride"] == 1


def shrink_shard(spec, seed, tier, bucket, index, cap_s):
    if spec["kind"] == "hyp":
        return shrink(cut_case(), lambda c: check_case(c, spec), bucket, seed, index, spec["examples"], cap_s)
    return None


def replay(case, spec):
    return check_case(case, spec).failures


KNOWN_PREDICATES = {}


def evidence_extra(classes):
    """which configured rules were exercised (reported by a successful merge) and which never fired in this run"""
    merge_cfg, expand_cfg, comp_cfg = rule_config()
    names = list(merge_cfg) + list(expand_cfg) + list(comp_cfg)
    hit = {n: classes.get("rule:" + n, 0) for n in names}
    return {"rules_exercised": {k: v for k, v in hit.items() if v}, "rules_never_reported": [k for k, v in hit.items() if not v]}
