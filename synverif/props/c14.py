"""C14 — composition-determined outcomes (input-balanced / rule-based) ignore how the SMILES is written."""
import json
import os

from hypothesis import strategies as st

from .. import gen, oracle, pipe, pipeprops as pp
from ..runner import CaseResult, case_key, explore, shrink

ID = "C14"
LEVEL = "exploration"
RULE = ("Base reactions whose outcome is composition-determined (curated balanced reactions; the same with 1-2 small "
        "molecules dropped so that the rule-based stage fills them; redox/hydrolysis templates over R groups; corpus "
        "reactions) each with 4-8 drawn equivalent spellings: drawn atom order (RenumberAtoms + non-canonical writer), "
        "kekule form, all-bonds-explicit, all-H-explicit, drawn atom-map numbers, drawn molecule order within each "
        "side. Base and variants are run together; metamorphic oracle: same (solved, method) for every variant and, "
        "identical per-side multisets of added molecules unless the two runs differ ONLY in molecules of "
        "reaction_template.json (plus the placeholders [H], [O], [H][H]) and at least one differing molecule is a "
        "Cr/Mn/B/Al/S reagent of such a template (= a different choice of redox reagent template). "
        "Non-trivial = variant string differs from the base string and the base outcome is rule-based; distinct = "
        "distinct variant strings.")
ASSUMPTIONS = [
    "every variant is verified by the oracle to consist of the same molecules as the base (canonical SMILES, maps "
    "cleared) before it is used; otherwise it is replaced by the base spelling",
    "base reactions whose own outcome is mcs-based or declined are outside the property's scope (counted, not judged)",
    "choice of redox reagent template is excluded by the statement: pairs whose additions differ only by template "
    "molecules including an actual reagent are compared by verdict only",
]

_TEMPLATE_SMILES = None


def template_smiles():
    global _TEMPLATE_SMILES
    if _TEMPLATE_SMILES is None:
        import synrbl.SynChemImputer as pkg
        path = os.path.join(os.path.dirname(pkg.__file__), "reaction_template.json")
        data = json.load(open(path))
        out = set()

        def walk(x):
            if isinstance(x, dict):
                for v in x.values():
                    walk(v)
            elif isinstance(x, list):
                for v in x:
                    walk(v)
            elif isinstance(x, str):
                c = oracle.canon(x)
                if c:
                    out.add(c)
        walk(data)
        for s in ("[H]", "[O]", "[H][H]"):
            out.add(oracle.canon(s))
        _TEMPLATE_SMILES = out
    return _TEMPLATE_SMILES


@st.composite
def small_drop_reaction(draw):
    """curated balanced reaction with 1-2 *small* (<=3 heavy atoms, carbon-free preferred) molecules dropped"""
    pool = gen.load_reactions_capped("balanced", 40, 5)
    rxn = draw(gen.indexed(pool))
    a, b = oracle.split_reaction(rxn)
    sides = [a.split("."), b.split(".")]
    for _ in range(draw(st.integers(1, 2))):
        k = draw(st.sampled_from([1, 1, 0]))
        small = [i for i, m in enumerate(sides[k]) if (oracle.heavy_atoms(m) or 0) <= 3 and oracle.count_element(m, "C") == 0]
        if small and len(sides[k]) > 1:
            sides[k].pop(small[draw(st.integers(0, len(small) - 1))])
    return ".".join(sides[0]) + ">>" + ".".join(sides[1]), ["small-drop"]


@st.composite
def duplicated_molecule_reaction(draw):
    """a molecule listed twice with identical text on one side (two equivalents): union of two reactions sharing a
    reactant, optionally with a small product dropped so that the rule-based stage has to fill it"""
    rxn, tags = draw(gen.shared_reagent_union())
    a, b = oracle.split_reaction(rxn)
    pb = b.split(".")
    small = [i for i, m in enumerate(pb) if (oracle.heavy_atoms(m) or 0) <= 3 and oracle.count_element(m, "C") == 0]
    if small and draw(st.booleans()):
        pb.pop(small[draw(st.integers(0, len(small) - 1))])
    return a + ">>" + ".".join(pb), tags + ["duplicated-molecule"]


_RO = ["CC", "CCC", "C1CCCCC1", "c1ccccc1", "CC(C)", "c1ccccc1C", "CCS", "OCC"]
_R2 = ["C", "CC", "CCC", "C=CC", "c1ccccc1C"]


@st.composite
def hydrogen_releasing_reaction(draw):
    """deprotonations by a hydride / alkali metal (Williamson-type alkylations, alkoxide formation): the rule-based stage
    sets hydrogen free and its follow-up depends on WHICH molecules the reactant side holds, not on where they stand"""
    r = draw(st.sampled_from(_RO))
    metal = draw(st.sampled_from(["Na", "K", "Li"]))
    if draw(st.booleans()):
        r2, x = draw(st.sampled_from(_R2)), draw(st.sampled_from(["Br", "I", "Cl"]))
        base = draw(st.sampled_from(["[H-].[%s+]" % metal, "[%s]" % metal]))
        reactants = [r + "O", r2 + x] + base.split(".")
        products = [r + "O" + r2]
    else:
        reactants = [r + "O", "[%s]" % metal]
        products = [r + "[O-]", "[%s+]" % metal]
    if draw(st.integers(0, 2)) == 0:
        reactants.append(draw(st.sampled_from(["C1CCOC1", "CN(C)C=O", "O"])))   # a solvent molecule standing by
        products.append(reactants[-1])
    reactants = list(draw(st.permutations(reactants)))
    return ".".join(reactants) + ">>" + ".".join(products), ["hydrogen-releasing"]


@st.composite
def spelling_case(draw):
    base, tags = draw(st.one_of(
        small_drop_reaction(), small_drop_reaction(), gen.template_reaction(), hydrogen_releasing_reaction(),
        gen.with_markers(st.one_of(small_drop_reaction(), gen.template_reaction()), max_markers=1),
        gen.shared_reagent_union(), duplicated_molecule_reaction(),
        gen.indexed(gen.load_reactions_capped("balanced", 40, 5)).map(lambda r: (r, ["balanced"])),
        pp.closed_shell_rx(gen.corpus_reaction(30, 4))))
    if not oracle.reaction_closed_shell(base):
        base, tags = "CC(=O)OC.O>>CC(=O)O", ["fallback"]
    n = draw(st.integers(4, 8))
    variants = [draw(gen.respell_reaction(base)) for _ in range(n)]
    return {"base": base, "variants": variants, "tags": tags}


def _equivalent(a, b):
    sa, sb = oracle.split_reaction(a), oracle.split_reaction(b)
    if sa is None or sb is None:
        return False
    return all(oracle.molecule_multiset(sa[k]) == oracle.molecule_multiset(sb[k]) for k in (0, 1))


def check_case(case, spec=None):
    res = CaseResult()
    base = case["base"]
    variants = [v for v in case["variants"] if _equivalent(base, v)]
    if len(variants) != len(case["variants"]):
        res.tag("variant-not-equivalent(harness)")
    rows, _ = pipe.run([base] + variants, n_jobs=1)
    if len(rows) != 1 + len(variants):
        res.inconclusive = "row count (C05)"
        return res
    r0 = rows[0]
    outcome = r0.get("solved_by") if r0.get("solved") else "declined"
    res.tag("base:" + str(outcome))
    res.evals = len(variants)
    if outcome not in ("input-balanced", "rule-based"):
        # the property is about the whole class of equivalent spellings: if ANY spelling has a composition-determined
        # outcome, that one is the reference and every other spelling (incl. the drawn base) must agree with it
        ref = next((k for k, r in enumerate(rows) if r.get("solved") and r.get("solved_by") in ("input-balanced", "rule-based")), None)
        if ref is None:
            return res
        allsp = [base] + variants
        base, r0 = allsp[ref], rows[ref]
        variants = [s_ for k, s_ in enumerate(allsp) if k != ref]
        rows = [r0] + [r for k, r in enumerate(rows) if k != ref]
        outcome = r0.get("solved_by")
        res.tag("reference-is-a-variant")
    ad0 = pp.added_molecules(base, r0["reaction"])
    tmpl = template_smiles()

    def reagent(m):
        return m in tmpl and any(el in m for el in ("Cr", "Mn", "B", "Al", "S"))

    def template_choice(ad_a, ad_b):
        """the two runs differ only in molecules of the redox templates AND at least one differing molecule is an actual
        reagent of such a template (placeholders / water / salts alone are not a 'choice of reagent template')"""
        diff = []
        for k in (0, 1):
            diff += list((ad_a[k][0] - ad_b[k][0]).elements()) + list((ad_b[k][0] - ad_a[k][0]).elements())
        return bool(diff) and all(m in tmpl for m in diff) and any(reagent(m) for m in diff)
    for v, r in zip(variants, rows[1:]):
        out = r.get("solved_by") if r.get("solved") else "declined"
        kinds = []
        if v != base:
            if oracle.has_atom_map(v):
                kinds.append("maps")
            if ":" in v.replace(":]", "") and "c" not in v and False:
                pass
            if "[" in v and "H" in v:
                kinds.append("bracketH")
            if "=" in v and "c" not in v and "c" in base:
                kinds.append("kekule")
            sv, sb_ = oracle.split_reaction(v), oracle.split_reaction(base)
            if [oracle.canon(p) for p in sv[0].split(".")] != [oracle.canon(p) for p in sb_[0].split(".")] or \
               [oracle.canon(p) for p in sv[1].split(".")] != [oracle.canon(p) for p in sb_[1].split(".")]:
                kinds.append("mol-order")
        res.tag(*["variant:" + k for k in kinds])
        if out != outcome:
            res.fail("verdict-differs:%s->%s" % (outcome, out), "same verdict", base=base, variant=v,
                     base_row=pipe.row_key(r0), variant_row=pipe.row_key(r))
            continue
        ad = pp.added_molecules(v, r["reaction"])
        if ad is None or ad0 is None:
            res.fail("output-malformed", "same additions", base=base, variant=v, variant_reaction=r.get("reaction"))
            continue
        if template_choice(ad, ad0):
            res.tag("template-choice-differs(verdict only)")
        else:
            for k in (0, 1):
                if ad[k][0] != ad0[k][0] or ad[k][1] != ad0[k][1]:
                    res.fail("additions-differ", "same additions", base=base, variant=v, side=k,
                             base_added=dict(ad0[k][0]), variant_added=dict(ad[k][0]),
                             base_lost=dict(ad0[k][1]), variant_lost=dict(ad[k][1]),
                             base_reaction=r0["reaction"], variant_reaction=r["reaction"])
                    break
        if v != base and outcome == "rule-based":
            res.nt_keys.append(case_key(v))
    return res


def shards(tier):
    q = tier == "quick"
    return [{"name": "hyp:%d" % i, "kind": "hyp", "examples": 90 if q else 1200} for i in range(16)]


def run_shard(spec, seed, tier, shard):
    explore(shard, spelling_case(), lambda c: check_case(c, spec), spec["examples"], seed)


def shrink_shard(spec, seed, tier, bucket, index, cap_s):
    return shrink(spelling_case(), lambda c: check_case(c, spec), bucket, seed, index, spec["examples"], cap_s)


def replay(case, spec):
    return check_case(case, spec).failures


KNOWN_PREDICATES = {}
