"""C12 — result caching is transparent across runs, configurations and crashes (histories + crash points)."""
import glob
import json
import math
import os
import shutil
import tempfile

from hypothesis import strategies as st

from .. import gen, oracle, pipe, pipeprops as pp
from ..runner import CaseResult, case_key, explore, shrink

ID = "C12"
LEVEL = "fault_enumeration"
RULE = ("Histories of 2-6 operations over one shared cache directory: run(inputs drawn from a pool of 4-7 reactions incl. "
        "overlaps and repeats, batch size, confidence threshold in {0,0.5,0.9,0.99,1}, reaction column name), crash(one "
        "existing cache file put into the state deleted / empty / truncated at a drawn byte prefix / leftover temp file "
        "next to it / overwritten by a foreign but valid JSON) and rerun of the last run. Model = memo of the same run "
        "with caching disabled. Invariant after every run: returned rows (all output columns, NaN==None==absent) and "
        "stats equal the cache-off result; no exception escapes. Crash points enumerated: for one cached batch EVERY "
        "byte prefix of its cache file through CacheManager.load_cache (must be miss-or-identical) and a stride of "
        "prefixes end-to-end through rebalance. One shard drives the command line (`run --cache --cache-dir --batch-size --min-confidence`) through sequences of runs with a crash state before the last one and compares its output file and .stats with the same command without --cache. A crash matrix puts 4-5 cached batches into one directory and, for every entry x 7 crash states of that entry (deleted, empty, half, leftover temp file empty / partial / complete, complete temp file without final file), re-runs all batches. Non-trivial = history with >=1 cache hit after a configuration change "
        "or >=1 run after a crash state; distinct = distinct histories / prefixes.")
ASSUMPTIONS = [
    "crash model: a kill during a cache write leaves the file absent, empty, a byte prefix of the final content, or a "
    "complete file plus/or a leftover temporary file; torn writes inside a file other than prefixes are not modelled",
    "cache-off reference runs use the same Balancer objects (C06 covers run-to-run determinism)",
    "a run in which an MCS timeout text appears is inconclusive",
]
THRESHOLDS = [0, 0.5, 0.9, 0.99, 1.0]
_BAL = {}
_MEMO = {}


def bal(col):
    if col not in _BAL:
        from synrbl import Balancer
        _BAL[col] = Balancer(n_jobs=1, reaction_col=col)
    return _BAL[col]


def run(inputs, bs, t, col, cache_dir):
    b = bal(col)
    b.confidence_threshold = t
    b.cache = cache_dir is not None
    b.cache_dir = cache_dir
    data = list(inputs) if col == "reaction" else [{col: r} for r in inputs]
    stats = {}
    rows = b.rebalance(data, output_dict=True, stats=stats, batch_size=bs)
    b.cache = False
    return rows, stats


def reference(inputs, bs, t, col):
    k = (tuple(inputs), bs, t, col)
    if k not in _MEMO:
        _MEMO[k] = run(inputs, bs, t, col, None)
    return _MEMO[k]


def norm_row(r):
    out = {}
    for k, v in r.items():
        if pipe.isnull(v):
            continue
        if isinstance(v, tuple):
            v = list(v)
        out[k] = v
    return out


@st.composite
def history_case(draw):
    pool_src = st.one_of(gen.mcs_prone_reaction(22, 3), gen.mcs_prone_reaction(22, 3),
                         pp.closed_shell_rx(gen.any_reaction(max_heavy=22, max_mols=3, weights=(3, 4, 3, 0))))
    pool = [p[0] for p in draw(st.lists(pool_src, min_size=4, max_size=7))]
    ops = []
    n = draw(st.integers(2, 6))
    have_run = False
    for _ in range(n):
        kind = draw(st.sampled_from(["run", "run", "reconfig", "reconfig", "crash", "rerun"])) if have_run else "run"
        if kind == "run":
            idx = draw(st.lists(st.integers(0, len(pool) - 1), min_size=1, max_size=6))
            ops.append({"op": "run", "idx": idx, "batch_size": draw(st.sampled_from([None, 1, 2, 3])),
                        "threshold": draw(st.sampled_from(THRESHOLDS)), "col": draw(st.sampled_from(["reaction", "reaction", "rxn"]))})
            have_run = True
        elif kind == "reconfig":
            # the same inputs and batch layout as the previous run under another threshold / column name
            prev = [o for o in ops if o["op"] == "run"][-1]
            ops.append({"op": "run", "idx": prev["idx"], "batch_size": prev["batch_size"],
                        "threshold": draw(st.sampled_from(THRESHOLDS)), "col": draw(st.sampled_from(["reaction", "reaction", "rxn"]))})
        elif kind == "crash":
            ops.append({"op": "crash", "which": draw(st.integers(0, 20)),
                        "state": draw(st.sampled_from(["delete", "empty", "truncate", "truncate", "tmp-leftover", "foreign-json"])),
                        "frac": draw(st.floats(0.0, 1.0, allow_nan=False))})
        else:
            ops.append({"op": "rerun"})
    return {"pool": pool, "ops": ops}


def entry_files(cache_dir):
    """whatever regular files the implementation keeps in its cache directory (name / extension are its business),
    leftover temporaries excluded"""
    return sorted(f for f in glob.glob(os.path.join(cache_dir, "*")) if os.path.isfile(f) and not f.endswith(".tmp"))


def apply_crash(cache_dir, op):
    files = entry_files(cache_dir)
    if not files:
        return None
    f = files[op["which"] % len(files)]
    raw = open(f, "rb").read()
    state = op["state"]
    if state == "delete":
        os.remove(f)
    elif state == "empty":
        open(f, "wb").close()
    elif state == "truncate":
        cut = min(len(raw) - 1, max(0, int(op["frac"] * len(raw))))
        open(f, "wb").write(raw[:cut])
    elif state == "tmp-leftover":
        open(f + ".tmp", "wb").write(raw[: max(1, len(raw) // 2)])
    elif state == "foreign-json":
        open(f, "w").write(json.dumps([1, 2, 3]))
    return os.path.basename(f)


def compare(res, rows, stats, ref_rows, ref_stats, detail, bucket_suffix):
    if len(rows) != len(ref_rows):
        res.fail("cached-row-count" + bucket_suffix, "equals cache-off run", n=len(rows), n_ref=len(ref_rows), **detail)
        return
    for i, (a, b) in enumerate(zip(rows, ref_rows)):
        if norm_row(a) != norm_row(b):
            fields = sorted(k for k in set(norm_row(a)) | set(norm_row(b)) if norm_row(a).get(k) != norm_row(b).get(k))
            res.fail("cached-row-differs" + bucket_suffix, "equals cache-off run", index=i, fields=fields,
                     cached=norm_row(a), reference=norm_row(b), **detail)
            return
    if stats != ref_stats:
        res.fail("cached-stats-differ" + bucket_suffix, "equals cache-off run", cached=stats, reference=ref_stats, **detail)


def check_history(case, spec=None):
    res = CaseResult()
    pool, ops = case["pool"], case["ops"]
    cache_dir = tempfile.mkdtemp(prefix="synverif-c12-", dir="/var/tmp")
    last = None
    crashed = False
    seen_inputs = {}
    n_runs = 0
    try:
        for step, op in enumerate(ops):
            if op["op"] == "crash":
                if apply_crash(cache_dir, op) is not None:
                    crashed = True
                    res.tag("crash:" + op["state"])
                continue
            if op["op"] == "rerun":
                if last is None:
                    continue
                args = last
            else:
                args = ([pool[i % len(pool)] for i in op["idx"]], op["batch_size"], op["threshold"], op["col"])
            last = args
            inputs, bs, t, col = args
            ref_rows, ref_stats = reference(inputs, bs, t, col)
            if any(pipe.is_timeout_issue(r) for r in ref_rows):
                res.inconclusive = "timeout text"
                return res
            detail = dict(step=step, inputs=inputs, batch_size=bs, threshold=t, col=col, history=ops, pool=pool)
            try:
                rows, stats = run(inputs, bs, t, col, cache_dir)
            except Exception as e:
                res.fail("cached-run-raises:" + type(e).__name__, "no exception", error=str(e)[:300], **detail)
                return res
            n_runs += 1
            if any(pipe.is_timeout_issue(r) for r in rows):
                res.inconclusive = "timeout text"
                return res
            key = (tuple(inputs), bs)
            config_changed = key in seen_inputs and seen_inputs[key] != (t, col)
            overlap = any(set(inputs) & set(k[0]) for k in seen_inputs)
            seen_inputs[key] = (t, col)
            suffix = ":after-crash" if crashed else (":config-change" if config_changed else "")
            compare(res, rows, stats, ref_rows, ref_stats, detail, suffix)
            if config_changed:
                res.tag("same-batch-other-config")
                res.nontrivial = True
            if crashed:
                res.tag("run-after-crash")
                res.nontrivial = True
            if overlap:
                res.tag("overlapping-inputs")
            if res.failures:
                return res
    finally:
        shutil.rmtree(cache_dir, ignore_errors=True)
    res.evals = max(1, n_runs)
    return res


def check_prefix(case, spec=None):
    """every byte prefix of one cache file: load must be a miss (None / non-dict) or the full content;
    a stride of prefixes is also exercised end-to-end."""
    from synrbl.SynUtils.batching import CacheManager
    res = CaseResult()
    inputs, bs, t = case["inputs"], case.get("batch_size"), case.get("threshold", 0)
    cache_dir = tempfile.mkdtemp(prefix="synverif-c12p-", dir="/var/tmp")
    n_eval = 0
    try:
        ref_rows, ref_stats = reference(inputs, bs, t, "reaction")
        run(inputs, bs, t, "reaction", cache_dir)
        files = entry_files(cache_dir)
        if not files:
            res.inconclusive = "no cache entry file found (nothing to crash)"
            return res
        f = files[0]
        raw = open(f, "rb").read()
        key = os.path.splitext(os.path.basename(f))[0]
        # the implementation's own reading of the complete entry is the reference (the file format is its business)
        try:
            full = CacheManager(cache_dir=cache_dir).load_cache(key)
        except Exception:
            full = None
        if not isinstance(full, dict):
            # the manager's load API does not hand back the entry under this key: only the end-to-end sweep applies
            res.tag("load-level-sweep-skipped")
        stride = case.get("stride", 1)
        for cut in (range(0, len(raw) + 1, stride) if isinstance(full, dict) else ()):
            open(f, "wb").write(raw[:cut])
            n_eval += 1
            try:
                cm = CacheManager(cache_dir=cache_dir)
                got = cm.load_cache(key) if cm.is_cached(key) else None
            except Exception as e:
                res.fail("load-raises-on-prefix:" + type(e).__name__, "partial file is a miss", prefix_len=cut, total=len(raw),
                         error=str(e)[:200], inputs=inputs)
                break
            if got is not None and got != full:
                if isinstance(got, dict) and ("result" in got or "stats" in got):
                    res.fail("prefix-loaded-as-different-content", "partial file is a miss", prefix_len=cut, total=len(raw), inputs=inputs)
                    break
        e2e = case.get("e2e_stride", max(1, len(raw) // 12))
        # record boundaries (after a newline) are where a line-oriented format would parse a partial file
        boundaries = [i + 1 for i, ch in enumerate(raw[:-1]) if ch == 10][:40]
        for cut in sorted(set(list(range(0, len(raw), e2e)) + [len(raw) - 1] + boundaries)):
            open(f, "wb").write(raw[:cut])
            n_eval += 1
            try:
                rows, stats = run(inputs, bs, t, "reaction", cache_dir)
            except Exception as e:
                res.fail("run-raises-on-prefix:" + type(e).__name__, "no exception", prefix_len=cut, total=len(raw),
                         error=str(e)[:200], inputs=inputs)
                break
            compare(res, rows, stats, ref_rows, ref_stats, dict(prefix_len=cut, total=len(raw), inputs=inputs), ":prefix")
            if res.failures:
                break
            res.nt_keys.append(case_key([inputs, cut]))
        # leftover temp file + complete file
        open(f, "wb").write(raw)
        open(f + ".tmp", "wb").write(raw[: len(raw) // 3])
        rows, stats = run(inputs, bs, t, "reaction", cache_dir)
        compare(res, rows, stats, ref_rows, ref_stats, dict(inputs=inputs, state="tmp-leftover"), ":tmp")
        res.tag("prefixes:%d" % (len(raw) + 1))
    finally:
        shutil.rmtree(cache_dir, ignore_errors=True)
    res.evals = max(1, n_eval)
    res.nontrivial = True
    return res


def check_matrix(case, spec=None):
    """several cached batches in one directory; for every entry x every crash state of that entry (incl. a leftover
    temporary file that is empty / partial / complete) re-run ALL batches and compare each with its cache-off result."""
    res = CaseResult()
    batches, t = case["batches"], case.get("threshold", 0)
    cache_dir = tempfile.mkdtemp(prefix="synverif-c12m-", dir="/var/tmp")
    n_eval = 0
    try:
        refs = [reference(b, None, t, "reaction") for b in batches]
        if any(pipe.is_timeout_issue(r) for rr, _ in refs for r in rr):
            res.inconclusive = "timeout text"
            return res
        for b in batches:
            run(b, None, t, "reaction", cache_dir)
        files = entry_files(cache_dir)
        if len(files) != len(set(map(tuple, batches))):
            res.inconclusive = "cache directory does not hold one entry file per batch (crash model does not apply)"
            return res
        originals = {f: open(f, "rb").read() for f in files}
        states = ["delete", "empty", "truncate-half", "tmp-empty", "tmp-partial", "tmp-complete", "tmp-complete+final-missing"]
        for f in files:
            for state in states:
                raw = originals[f]
                if state == "delete":
                    os.remove(f)
                elif state == "empty":
                    open(f, "wb").close()
                elif state == "truncate-half":
                    open(f, "wb").write(raw[: len(raw) // 2])
                elif state == "tmp-empty":
                    open(f + ".tmp", "wb").close()
                elif state == "tmp-partial":
                    open(f + ".tmp", "wb").write(raw[: len(raw) // 3])
                elif state == "tmp-complete":
                    open(f + ".tmp", "wb").write(raw)
                elif state == "tmp-complete+final-missing":
                    open(f + ".tmp", "wb").write(raw)
                    os.remove(f)
                for k, b in enumerate(batches):
                    n_eval += 1
                    detail = dict(state=state, crashed_entry=sorted(files).index(f), batch=k, batches=batches)
                    try:
                        rows, stats = run(b, None, t, "reaction", cache_dir)
                    except Exception as e:
                        res.fail("matrix-run-raises:" + type(e).__name__, "no exception", error=str(e)[:200], **detail)
                        return res
                    compare(res, rows, stats, refs[k][0], refs[k][1], detail, ":matrix:" + state.split("-")[0])
                    if res.failures:
                        return res
                    res.nt_keys.append(case_key([batches, state, sorted(files).index(f), k]))
                # restore the directory to the clean cached state
                for g in glob.glob(os.path.join(cache_dir, "*")):
                    os.remove(g)
                for g, raw_g in originals.items():
                    open(g, "wb").write(raw_g)
        res.tag("matrix-entries:%d" % len(files))
    finally:
        shutil.rmtree(cache_dir, ignore_errors=True)
    res.evals = max(1, n_eval)
    res.nontrivial = True
    return res


def check_cli(case, spec=None):
    """the command line with --cache / --cache-dir / --batch-size: a sequence of CLI runs over one cache directory
    (changing --min-confidence in between, with a crash state applied before the last run) must write what the
    same command writes without --cache."""
    import csv
    import pandas as pd
    from synrbl.SynCmd import setup_argparser
    res = CaseResult()
    d = tempfile.mkdtemp(prefix="synverif-c12c-", dir="/var/tmp")
    try:
        src = os.path.join(d, "in.csv")
        with open(src, "w", newline="") as f:
            w = csv.writer(f)
            w.writerow(["reaction", "tag"])
            for i, r in enumerate(case["reactions"]):
                w.writerow([r, "t%d" % i])
        cache_dir = os.path.join(d, "cache")

        def cli(out, t, cache):
            argv = ["run", src, "-o", out, "-p", "1", "-b", str(case["batch_size"]), "--out-columns", "tag",
                    "--min-confidence", str(t)]
            if cache:
                argv += ["--cache", "--cache-dir", cache_dir]
            args = setup_argparser().parse_args(argv)
            args.func(args)
            df = pd.read_csv(out)
            rows = [{k: (None if pipe.isnull(v) else v) for k, v in r.items() if not k.startswith("Unnamed")}
                    for r in df.to_dict("records")]
            return rows, json.load(open(out + ".stats"))
        n = 0
        for step, t in enumerate(case["thresholds"]):
            if step == len(case["thresholds"]) - 1 and case.get("crash"):
                apply_crash(cache_dir, case["crash"])
                res.tag("cli-crash:" + case["crash"]["state"])
            try:
                ref = cli(os.path.join(d, "ref%d.csv" % step), t, False)
                got = cli(os.path.join(d, "out%d.csv" % step), t, True)
            except Exception as e:
                res.fail("cli-cached-run-raises:" + type(e).__name__, "no exception", error=str(e)[:300], case=case, step=step)
                return res
            if any(pipe.is_timeout_issue(r) for r in ref[0] + got[0]):
                res.inconclusive = "timeout text"
                return res
            compare(res, got[0], got[1], ref[0], ref[1], dict(step=step, threshold=t, case=case), ":cli")
            n += 1
            if res.failures:
                return res
        res.evals = max(1, n)
        res.nontrivial = len(set(case["thresholds"])) > 1 or bool(case.get("crash"))
        res.tag("cli-runs:%d" % n)
    finally:
        shutil.rmtree(d, ignore_errors=True)
    return res


@st.composite
def cli_case(draw):
    src = st.one_of(gen.mcs_prone_reaction(22, 3), gen.mcs_prone_reaction(22, 3),
                    pp.closed_shell_rx(gen.any_reaction(max_heavy=22, max_mols=3, weights=(3, 4, 3, 0))))
    rxs = [p[0] for p in draw(st.lists(src, min_size=2, max_size=5))]
    ths = draw(st.lists(st.sampled_from(THRESHOLDS), min_size=2, max_size=3))
    crash = draw(st.one_of(st.none(), st.fixed_dictionaries({
        "which": st.integers(0, 9), "state": st.sampled_from(["delete", "empty", "truncate", "tmp-leftover"]),
        "frac": st.floats(0, 1, allow_nan=False)})))
    return {"reactions": rxs, "thresholds": ths, "batch_size": draw(st.integers(1, 3)), "crash": crash}


MATRIX_BATCHES = [
    [["CCO>>CC=O", "CC(=O)OC.O>>CC(=O)O"], ["CCBr.[OH-]>>CCO"], ["CC(=O)OCC.O>>CC(=O)O", "CCO>>CCO", "C=C>>CC"],
     ["c1ccccc1C(=O)Cl.N>>c1ccccc1C(N)=O"], ["CC(C)=O>>CC(C)O", "CCCO>>CCC=O"]],
]


def shards(tier):
    q = tier == "quick"
    out = [{"name": "hyp-histories:%d" % i, "kind": "hyp", "examples": 30 if q else 400} for i in range(13)]
    for i in range(3):
        out.append({"name": "crash-prefixes:%d" % i, "kind": "prefix", "which": i, "stride": 1})
    for i in range(2):
        out.append({"name": "crash-matrix:%d" % i, "kind": "matrix", "which": i, "weight": 5000})
    out.append({"name": "hyp-cli", "kind": "cli", "examples": 12 if q else 150, "weight": 3000})
    return out


PREFIX_INPUTS = [
    (["CCO>>CC=O", "CC(=O)OC.O>>CC(=O)O"], None, 0),
    (["CC(=O)OCC.O>>CC(=O)O", "CCBr.[OH-]>>CCO", "c1ccccc1C(=O)Cl.N>>c1ccccc1C(N)=O"], None, 0.9),
    (["CCO>>CCO"], None, 0),
]


def run_shard(spec, seed, tier, shard):
    if spec["kind"] == "hyp":
        explore(shard, history_case(), check_history, spec["examples"], seed)
    elif spec["kind"] == "cli":
        from .c05 import _memoise_cli_balancer
        _memoise_cli_balancer()
        explore(shard, cli_case(), check_cli, spec["examples"], seed)
    elif spec["kind"] == "matrix":
        if spec["which"] == 0:
            c = {"batches": MATRIX_BATCHES[0], "threshold": 0}
        else:
            mp = list(gen.mcs_prone_reactions(22, 3)[40:46])
            c = {"batches": [mp[0:2], mp[2:3], mp[3:5], mp[5:6]], "threshold": 0.9}
        shard.add(c, check_matrix(c), 0)
        shard.exhaustive = True
    else:
        inputs, bs, t = PREFIX_INPUTS[spec["which"]]
        c = {"inputs": inputs, "batch_size": bs, "threshold": t, "stride": 1}
        shard.add(c, check_prefix(c), 0)
        # one MCS-bearing batch as well (larger file): stride 7 at manager level in quick
        mp = list(gen.mcs_prone_reactions(22, 3)[20 + spec["which"] * 5: 22 + spec["which"] * 5])
        c2 = {"inputs": mp, "batch_size": None, "threshold": 0, "stride": 7 if tier == "quick" else 1}
        shard.add(c2, check_prefix(c2), 1)
        shard.exhaustive = True


def shrink_shard(spec, seed, tier, bucket, index, cap_s):
    if spec["kind"] == "hyp":
        return shrink(history_case(), check_history, bucket, seed, index, spec["examples"], cap_s)
    if spec["kind"] == "cli":
        from .c05 import _memoise_cli_balancer
        _memoise_cli_balancer()
        return shrink(cli_case(), check_cli, bucket, seed, index, spec["examples"], cap_s)
    return None


def replay(case, spec):
    if "ops" in case:
        return check_history(case).failures
    if "batches" in case:
        return check_matrix(case).failures
    if "thresholds" in case:
        from .c05 import _memoise_cli_balancer
        _memoise_cli_balancer()
        return check_cli(case).failures
    return check_prefix(case).failures


KNOWN_PREDICATES = {}
