"""C05 — one result row per input row, in input order, for every input form; malformed rows never
remove or shift other rows; the CLI writes pass-through columns next to the reaction they came from."""
import csv
import json
import math
import os
import shutil
import tempfile

from hypothesis import strategies as st

from .. import gen, oracle, pipe, pipeprops as pp
from ..runner import CaseResult, case_key, explore, shrink

ID = "C05"
LEVEL = "exploration"
RULE = ("Sequences of 1-8 rows mixing valid reactions (C01's generator, size-capped) with every malformed class "
        "(unparsable SMILES, zero / two / three '>' separators, reagent-style A>B>C, empty string, empty sides, "
        "surrounding blanks, missing values None/NaN) at drawn positions x batch size 1..n+1/None x source form "
        "(list of str, list of dict with pass-through keys, CSV Dataset, JSON Dataset - the non-list forms with and without an own 'id' column in five styles -, CLI run through "
        "setup_argparser()/cmd_run with --out-columns; thorough adds real `python -m synrbl run` subprocesses). "
        "Oracle: len(out)==len(in); row i describes input i (input_reaction == unmapped input for valid rows; "
        "malformed rows: unsolved, reaction == raw value, non-empty issue); each valid row equals the row the same "
        "reaction gets when run alone; stats.reaction_cnt == len(in); CLI: tag of output row i == tag of input row i. "
        "Non-trivial = sequence with >=1 malformed and >=1 valid row; distinct = distinct (rows, form, batch size).")
ASSUMPTIONS = [
    "validity of a row is decided independently: exactly one '>>' and both sides parse in RDKit (empty side = valid "
    "for RDKit; such degenerate rows only need to keep their position)",
    "a non-string element in a *list of strings* raising ValueError before any work is accepted API rejection",
    "the CLI refusing a file whose first row is not a valid reaction (check_columns) is accepted when it aborts "
    "cleanly without writing an output file",
    "rows whose issue text reports an MCS wall-clock timeout are not compared with their run-alone result",
]

FORMS = ["list_str", "list_dict", "csv", "json", "cli"]
_ALONE = {}


def _is_missing(v):
    return v is None or (isinstance(v, float) and math.isnan(v))


def classify(v):
    if _is_missing(v):
        return "missing"
    if not isinstance(v, str):
        return "nonstring"
    if pp.valid_input(v):
        sp = oracle.split_reaction(v)
        if sp[0].strip() == "" or sp[1].strip() == "" or v != v.strip() or " " in v:
            return "degenerate"
        return "valid"
    return "malformed"


@st.composite
def row_sequence(draw):
    valid = pp.closed_shell_rx(gen.any_reaction(max_heavy=25, max_mols=3, weights=(4, 4, 3, 1)))
    n = draw(st.integers(1, 8))
    rows = []
    for _ in range(n):
        if draw(st.integers(0, 2)) == 0:
            kind, val = draw(st.sampled_from(gen.MALFORMED))
            rows.append(val)
        else:
            rows.append(draw(valid)[0])
    form = draw(st.sampled_from(FORMS))
    bs = draw(st.one_of(st.none(), st.integers(1, n + 1)))
    # datasets usually carry their own identifier column (the README's CSV has 'id,reaction'); the pipeline uses
    # the same column name internally, so generate it in several styles
    ids = draw(st.sampled_from([None, None, "zero-based", "one-based", "reversed", "strings", "constant"]))
    return {"rows": rows, "form": form, "batch_size": bs, "ids": ids}


def make_ids(style, n):
    if style is None:
        return None
    if style == "zero-based":
        return list(range(n))
    if style == "one-based":
        return list(range(1, n + 1))
    if style == "reversed":
        return list(range(n - 1, -1, -1))
    if style == "strings":
        return ["rx-%d" % (7 * i + 3) for i in range(n)]
    return [5] * n


def _alone(rxn):
    if rxn not in _ALONE:
        rows, _ = pipe.run([rxn], n_jobs=1)
        _ALONE[rxn] = rows[0] if len(rows) == 1 else None
    return _ALONE[rxn]


def _norm_cell(v):
    """what a text source turns a value into: CSV has no null, JSON keeps null."""
    return v


def run_form(case, workdir):
    """-> dict(rows=..., stats=..., tags=[...] or None, aborted=bool, error=str|None)"""
    rows_in, form, bs = case["rows"], case["form"], case.get("batch_size")
    ids = make_ids(case.get("ids"), len(rows_in))
    out = {"rows": None, "stats": None, "tags": None, "aborted": False, "error": None, "effective": list(rows_in)}
    b = pipe.balancer(n_jobs=1, threshold=0)
    stats = {}
    try:
        if form == "list_str":
            out["rows"] = b.rebalance(list(rows_in), output_dict=True, stats=stats, batch_size=bs)
        elif form == "list_dict":
            data = []
            for i, v in enumerate(rows_in):
                d = {"reaction": v, "tag": "t%d" % i, "note": "x"}
                if ids is not None:
                    d["id"] = ids[i]
                data.append(d)
            out["rows"] = b.rebalance(data, output_dict=True, stats=stats, batch_size=bs)
        elif form in ("csv", "cli"):
            src = os.path.join(workdir, "in.csv")
            with open(src, "w", newline="") as f:
                w = csv.writer(f)
                w.writerow(["reaction", "tag"] + (["id"] if ids is not None else []))
                for i, v in enumerate(rows_in):
                    w.writerow(["" if _is_missing(v) else v, "t%d" % i] + ([ids[i]] if ids is not None else []))
            if form == "csv":
                from synrbl.SynUtils.batching import Dataset
                out["effective"] = ["" if _is_missing(v) else v for v in rows_in]
                out["rows"] = b.rebalance(Dataset(src), output_dict=True, stats=stats, batch_size=bs)
            else:
                # pandas reads an empty cell as NaN
                out["effective"] = [float("nan") if (_is_missing(v) or v == "") else v for v in rows_in]
                dst = os.path.join(workdir, "out.csv")
                from synrbl.SynCmd import setup_argparser
                _memoise_cli_balancer()
                argv = ["run", src, "-o", dst, "-p", "1", "--out-columns", "tag"]
                if bs is not None:
                    argv += ["-b", str(bs)]
                args = setup_argparser().parse_args(argv)
                try:
                    args.func(args)
                except (ValueError, KeyError, TypeError) as e:
                    out["aborted"] = True
                    out["error"] = "%s: %s" % (type(e).__name__, e)
                    out["wrote_output"] = os.path.exists(dst)
                    return out
                import pandas as pd
                df = pd.read_csv(dst)
                recs = df.to_dict("records")
                out["rows"] = [{k: (None if _is_missing(v) else v) for k, v in r.items()} for r in recs]
                out["tags"] = [r.get("tag") for r in recs]
                stats = json.load(open(dst + ".stats"))
        elif form == "json":
            src = os.path.join(workdir, "in.json")
            with open(src, "w") as f:
                json.dump([dict({"reaction": (None if _is_missing(v) else v), "tag": "t%d" % i},
                                **({"id": ids[i]} if ids is not None else {})) for i, v in enumerate(rows_in)], f)
            from synrbl.SynUtils.batching import Dataset
            out["effective"] = [None if _is_missing(v) else v for v in rows_in]
            out["rows"] = b.rebalance(Dataset(src), output_dict=True, stats=stats, batch_size=bs)
        out["stats"] = stats
    except Exception as e:
        out["error"] = "%s: %s" % (type(e).__name__, str(e)[:300])
    return out


_CLI_BAL = {}


def _memoise_cli_balancer():
    """cmd_run.impute builds a fresh Balancer (2.5 s: model load) per call; reuse one per argument set.
    The CLI's own logic (read_csv, check_columns, rebalance, pass-through zip, to_csv, .stats) is untouched."""
    from synrbl.SynCmd import cmd_run
    import synrbl
    if getattr(cmd_run.Balancer, "_synverif_memo", False):
        return
    real = synrbl.Balancer

    def factory(**kw):
        key = tuple(sorted((k, repr(v)) for k, v in kw.items()))
        if key not in _CLI_BAL:
            _CLI_BAL[key] = real(**kw)
        return _CLI_BAL[key]
    factory._synverif_memo = True
    cmd_run.Balancer = factory


def _skeleton(smiles):
    """heavy-atom element multiset per molecule (ignores H counts/charges): enough to tell which input a row describes"""
    out = []
    for p in smiles.split("."):
        if not p.strip():
            continue
        c = oracle.composition(p.strip())
        if c is None:
            out.append(None)
        else:
            out.append(tuple(sorted((k, v) for k, v in c[0].items() if k != "H")))
    return out


def _fix_rules(row):
    """undo CSV text round-trip artefacts of the CLI output (list printed as text, float re-parsed by pandas)"""
    c = row.get("confidence")
    if isinstance(c, float) and not math.isnan(c):
        row = dict(row, confidence=round(c, 6))
    r = row.get("rules")
    if isinstance(r, str):
        import ast
        try:
            row = dict(row, rules=list(ast.literal_eval(r)))
        except Exception:
            pass
    return row


def _same_value(a, b):
    if _is_missing(a) and _is_missing(b):
        return True
    return a == b


def check_case(case, spec=None):
    res = CaseResult()
    rows_in, form = case["rows"], case["form"]
    workdir = tempfile.mkdtemp(prefix="synverif-c05-", dir="/var/tmp")
    try:
        r = run_form(case, workdir)
    finally:
        shutil.rmtree(workdir, ignore_errors=True)
    eff = r["effective"]
    kinds = [classify(v) for v in eff]
    res.tag("form:" + form)
    if case.get("ids"):
        res.tag("own-id-column:" + case["ids"])
    for k in set(kinds):
        res.tag("has:" + k)
    n = len(rows_in)
    res.nontrivial = ("valid" in kinds) and any(k in ("malformed", "missing") for k in kinds)
    if res.nontrivial:
        pos = [i for i, k in enumerate(kinds) if k in ("malformed", "missing")]
        res.tag("malformed-first" if 0 in pos else "malformed-later")
        bs = case.get("batch_size")
        if bs is not None and bs < n:
            res.tag("multi-batch")
    # accepted API rejections
    if form == "list_str" and any(not isinstance(v, str) for v in rows_in):
        if r["error"] is not None and r["error"].startswith("ValueError"):
            res.tag("list-nonstring-rejected")
            res.nontrivial = False
            return res
        if r["error"] is None:
            res.tag("list-nonstring-accepted")
    if form == "cli" and r["aborted"]:
        if kinds[0] != "valid" or (isinstance(eff[0], str) and False):
            if r.get("wrote_output"):
                res.fail("cli-abort-wrote-output", "cli", rows=rows_in, error=r["error"])
            res.tag("cli-first-row-rejected")
            res.nontrivial = False
            return res
        # rdkit's ReactionFromSmarts is stricter than MolFromSmiles on some degenerate rows: accept a clean abort only
        res.fail("cli-abort-valid-first-row", "cli", rows=rows_in, error=r["error"], batch_size=case.get("batch_size"))
        return res
    if r["error"] is not None:
        res.fail("raises:" + form + ":" + r["error"].split(":")[0], "no exception", rows=rows_in, form=form,
                 batch_size=case.get("batch_size"), error=r["error"])
        return res
    out = r["rows"]
    if len(out) != n:
        res.fail("row-count:" + form, "one row per input", rows=rows_in, form=form, batch_size=case.get("batch_size"),
                 n_in=n, n_out=len(out), kinds=kinds)
        return res
    for i, (v, k, row) in enumerate(zip(eff, kinds, out)):
        ir = row.get("input_reaction")
        if k in ("malformed", "missing", "nonstring"):
            if row.get("solved"):
                res.fail("malformed-solved", "malformed declined", index=i, value=v, row=row, rows=rows_in, form=form)
            if not _same_value(row.get("reaction"), v) or not _same_value(ir, v):
                res.fail("malformed-row-mismatch", "row describes its input", index=i, value=v, row=row, rows=rows_in,
                         form=form, batch_size=case.get("batch_size"))
            if pipe.isnull(row.get("issue")):
                res.fail("malformed-without-issue", "malformed declined", index=i, value=v, row=row, rows=rows_in, form=form)
        else:
            # row i must describe input i
            ok = isinstance(ir, str) and oracle.split_reaction(ir) is not None
            if ok:
                si, sr = oracle.split_reaction(v), oracle.split_reaction(ir)
                for s in (0, 1):
                    # identity up to hydrogen counts: whether the unmapped molecule is *chemically* the input
                    # is C15/C02's business; here only "which input does this row describe" matters
                    if _skeleton(si[s]) != _skeleton(sr[s]):
                        ok = False
            if not ok:
                res.fail("row-shifted:" + form, "row describes its input", index=i, value=v, input_reaction=ir,
                         rows=rows_in, form=form, batch_size=case.get("batch_size"))
                continue
            if k == "valid":
                alone = _alone(v)
                if alone is None:
                    res.fail("alone-run-no-row", "row describes its input", value=v)
                elif not (pipe.is_timeout_issue(row) or pipe.is_timeout_issue(alone)):
                    if pipe.row_key(_fix_rules(row)) != pipe.row_key(_fix_rules(alone)):
                        res.fail("differs-from-alone:" + form, "same as alone", index=i, value=v, got=pipe.row_key(_fix_rules(row)),
                                 alone=pipe.row_key(_fix_rules(alone)), rows=rows_in, form=form, batch_size=case.get("batch_size"))
                else:
                    res.inconclusive = "mcs timeout text"
    if r["stats"] is not None and r["stats"].get("reaction_cnt", 0) != n:
        res.fail("stats-reaction_cnt", "reaction count", rows=rows_in, form=form, stats=r["stats"], batch_size=case.get("batch_size"))
    if r["tags"] is not None:
        exp = ["t%d" % i for i in range(n)]
        if list(r["tags"]) != exp:
            res.fail("cli-tag-shift", "cli pass-through", rows=rows_in, got=r["tags"], expected=exp, batch_size=case.get("batch_size"))
    return res


def check_subprocess(case):
    """real `python -m synrbl run` on a CSV (thorough): tags must stay aligned."""
    import subprocess
    import pandas as pd
    res = CaseResult()
    workdir = tempfile.mkdtemp(prefix="synverif-c05-", dir="/var/tmp")
    try:
        src, dst = os.path.join(workdir, "in.csv"), os.path.join(workdir, "out.csv")
        with open(src, "w", newline="") as f:
            w = csv.writer(f)
            w.writerow(["rxn", "tag", "other"])
            for i, v in enumerate(case["rows"]):
                w.writerow(["" if _is_missing(v) else v, "t%d" % i, i])
        argv = ["/venv/bin/python", "-m", "synrbl", "run", src, "-o", dst, "-p", "1", "--col", "rxn", "--out-columns", "tag,other"]
        if case.get("batch_size") is not None:
            argv += ["-b", str(case["batch_size"])]
        p = subprocess.run(argv, cwd=workdir, capture_output=True, text=True, timeout=600)
        kinds = [classify(float("nan") if (_is_missing(v) or v == "") else v) for v in case["rows"]]
        res.tag("subprocess")
        res.nontrivial = ("valid" in kinds) and any(k in ("malformed", "missing") for k in kinds)
        if p.returncode != 0:
            if kinds[0] != "valid" and not os.path.exists(dst):
                res.tag("cli-first-row-rejected")
                return res
            res.fail("subprocess-exit", "cli", rows=case["rows"], rc=p.returncode, stderr=p.stderr[-400:])
            return res
        df = pd.read_csv(dst)
        if len(df) != len(case["rows"]):
            res.fail("subprocess-row-count", "one row per input", rows=case["rows"], n_out=len(df))
            return res
        if list(df["tag"]) != ["t%d" % i for i in range(len(case["rows"]))] or list(df["other"]) != list(range(len(case["rows"]))):
            res.fail("subprocess-tag-shift", "cli pass-through", rows=case["rows"], got=list(df["tag"]))
        st_ = json.load(open(dst + ".stats"))
        if st_.get("reaction_cnt") != len(case["rows"]):
            res.fail("subprocess-reaction_cnt", "reaction count", rows=case["rows"], stats=st_)
    finally:
        shutil.rmtree(workdir, ignore_errors=True)
    return res


def shards(tier):
    q = tier == "quick"
    out = []
    for i in range(13 if q else 14):
        out.append({"name": "hyp:%d" % i, "kind": "hyp", "examples": 70 if q else 900})
    for i in range(3):
        out.append({"name": "each-malformed-each-position:%d" % i, "kind": "enum", "part": i, "of": 3, "weight": 10 ** 4})
    if not q:
        out.append({"name": "subprocess", "kind": "subprocess", "examples": 12})
    return out


def _enum_cases(spec):
    v1, v2 = "CCO>>CC=O", "CC(=O)OC.O>>CC(=O)O"
    j = 0
    if spec["part"] == 0:
        for form in ("list_str", "list_dict", "csv", "json"):
            for bs in (None, 1, 3):
                yield {"rows": [], "form": form, "batch_size": bs, "ids": None}   # nothing in, nothing out, no error
    for kind, val in gen.MALFORMED:
        for pos in (0, 1, 2):
            rows = [v1, v2]
            rows.insert(pos, val)
            for form in FORMS:
                for bs in (None, 1, 2):
                    j += 1
                    if j % spec["of"] == spec["part"]:
                        yield {"rows": rows, "form": form, "batch_size": bs,
                               "ids": [None, "one-based", "zero-based", "reversed"][j % 4] if form != "list_str" else None}


def run_shard(spec, seed, tier, shard):
    if spec["kind"] == "hyp":
        explore(shard, row_sequence(), lambda c: check_case(c, spec), spec["examples"], seed)
    elif spec["kind"] == "enum":
        for i, c in enumerate(_enum_cases(spec)):
            shard.add(c, check_case(c, spec), i)
        shard.exhaustive = True
    elif spec["kind"] == "subprocess":
        explore(shard, row_sequence().map(lambda c: dict(c, form="subprocess")), check_subprocess, spec["examples"], seed)


def shrink_shard(spec, seed, tier, bucket, index, cap_s):
    if spec["kind"] == "hyp":
        return shrink(row_sequence(), lambda c: check_case(c, spec), bucket, seed, index, spec["examples"], cap_s)
    return None


def replay(case, spec):
    if case.get("form") == "subprocess":
        return check_subprocess(case).failures
    return check_case(case, spec).failures


KNOWN_PREDICATES = {}
