"""C20 — tautomer standardisation conserves atoms, returns valid SMILES, never an error text, and is idempotent."""
import os
import subprocess
import sys
import json

from hypothesis import strategies as st
from rdkit import Chem

from .. import gen, oracle
from ..runner import CaseResult, case_key, explore, shrink

ID = "C20"
LEVEL = "exploration"
RULE = ("Valid molecules and mixtures: every closed-shell corpus molecule (enumerated), Hypothesis-edited molecules "
        "enriched by construction with enols, enolates, hemiketals/hemiacetals, gem-diols, ortho acids, several such "
        "groups per molecule, metal alkoxides/enolates, mixtures of 1-3 molecules, each in a drawn atom order. Oracle: "
        "MoleculeStandardizer()(s) returns a str without raising, the result parses, its oracle composition and net "
        "charge equal the input's, and f(f(s)) == f(s). The functional-group query of the third-party fgutils package "
        "depends on PYTHONHASHSEED, so the thorough tier repeats a sample under several hash seeds in subprocesses. "
        "Non-trivial = the group query reports >=1 enol or hemiketal group on the input (i.e. a rewrite is attempted); "
        "distinct = distinct input strings.")
ASSUMPTIONS = [
    "RDKit trusted for parsing and for the oracle composition",
    "checks run with PYTHONHASHSEED=0 (fgutils' group detection varies with the hash seed); other seeds are sampled "
    "in the thorough tier only",
]

ENOL_BLOCKS = ["C(O)=C", "C=CO", "C(O)(O)C", "C(O)(OC)C", "C(O)(O)O", "OC=C", "C(=C)O", "C(O)OC", "C([O-])=C", "OC(C)=CC",
               "C(O)(O)", "C(=CO)C", "O[Na]", "C(O[Na])=C", "C(O)(O[K])C", "C1(O)OCCC1", "C=C(O)C=C(O)C", "OC(O)(O)O"]
ENOL_SEEDS = ["C=CO", "C=C(O)C", "CC(O)=C", "OC=CC=CO", "C=C(O)C=C(O)C", "CC(O)(O)C", "CC(O)(OC)C", "OC(O)(O)O", "OC(O)O",
              "C=C[O-]", "C=CO[Na]", "[Na]OC=C", "OC1CCCCO1", "OC1(C)CCCO1", "O=C(O)C=CO", "OC=C1CCCCC1", "OC1=CCCCC1",
              "Oc1ccccc1", "OC(O)c1ccccc1", "COC(O)c1ccccc1", "OC(OC)(OC)C", "C(O)(O)C=CO", "NC(O)=C", "SC=C", "OC=CN",
              "OC(=C)C(O)=C", "OC(O)(C)C(O)(O)C", "C=C(O)O", "C=C(O)OC", "O=C1CC(O)=CC(=O)C1", "CC(=O)C=C(C)O",
              "OC(O)=C", "[O-]C(O)(O)C", "C[N+](C)(C)C=CO", "OC=C.C=CO", "CC(O)(O)C.OC=C", "OCC=CO", "C(=CO)=CO", "OC#C",
              "OC=C=C", "FC(O)(O)C(F)(F)F", "OC(O)C(Cl)(Cl)Cl", "[Li]OC(C)=C", "C=C(O[Mg]Br)C", "OB(O)C=CO"]


def _std():
    from synrbl.SynChemImputer.molecule_standardizer import MoleculeStandardizer
    global _STD
    try:
        return _STD
    except NameError:
        _STD = MoleculeStandardizer()
        return _STD


def n_groups(smiles):
    try:
        g = _std().query.get(smiles)
        return sum(1 for x in g if x[0] in ("enol", "hemiketal"))
    except Exception:
        return -1


def check_smiles(s):
    res = CaseResult()
    exp = oracle.composition(s)
    if exp is None:
        res.inconclusive = "oracle cannot parse"
        return res
    ng = n_groups(s)
    res.nontrivial = ng >= 1
    res.tag("groups:%s" % (ng if ng < 3 else "3+"))
    if "." in s:
        res.tag("mixture")
    if "-]" in s or "+]" in s:
        res.tag("charged")
    if any(m in s for m in ("[Na]", "[K]", "[Li]", "[Mg]", "[Zn]")):
        res.tag("metal-bound")
    try:
        out = _std()(s)
    except Exception as e:
        res.fail("raises:" + type(e).__name__, "never an error", smiles=s, error=str(e)[:300])
        return res
    if not isinstance(out, str):
        res.fail("not-a-string", "returns SMILES", smiles=s, out=repr(out))
        return res
    got = oracle.composition(out)
    if got is None or oracle.parse(out) is None:
        res.fail("unparsable-output", "parses", smiles=s, out=out)
        return res
    if got[0] != exp[0] or got[1] != exp[1]:
        res.fail("composition-changed", "composition conserved", smiles=s, out=out, expected=[dict(exp[0]), exp[1]],
                 got=[dict(got[0]), got[1]])
    if out != s and oracle.canon(out) != oracle.canon(s):
        res.tag("rewritten")
    try:
        out2 = _std()(out)
        if out2 != out:
            res.fail("not-idempotent", "idempotent", smiles=s, once=out, twice=out2)
    except Exception as e:
        res.fail("raises-on-own-output:" + type(e).__name__, "idempotent", smiles=s, once=out, error=str(e)[:300])
    return res


@st.composite
def enol_rich(draw):
    kind = draw(st.sampled_from(["seed", "edit", "edit", "general", "mixture"]))
    if kind == "seed":
        s = draw(st.sampled_from(ENOL_SEEDS))
    elif kind == "general":
        s = draw(gen.molecule(True, 40, False))
    elif kind == "mixture":
        parts = draw(st.lists(st.one_of(st.sampled_from(ENOL_SEEDS), gen.molecule(True, 20, False)), min_size=2, max_size=3))
        s = ".".join(parts)
    else:
        base = draw(st.one_of(st.sampled_from(ENOL_SEEDS), gen.indexed(gen.load_molecules(True, 25))))
        mol = Chem.MolFromSmiles(base)
        for _ in range(draw(st.integers(1, 3))):
            cands = [a.GetIdx() for a in mol.GetAtoms() if a.GetTotalNumHs() > 0]
            if not cands:
                break
            idx = cands[draw(st.integers(0, len(cands) - 1))]
            try:
                new = gen._attach(mol, idx, draw(st.sampled_from(ENOL_BLOCKS)))
                chk = Chem.MolFromSmiles(Chem.MolToSmiles(new))
                if chk is not None and oracle.closed_shell(Chem.MolToSmiles(new)):
                    mol = chk
            except Exception:
                continue
        s = Chem.MolToSmiles(mol)
    if draw(st.integers(0, 2)) == 0:
        s = ".".join(draw(gen.respell(p, maps=False, allow_kekule=False, allow_explicit=False)) for p in s.split("."))
    return s


HASHSEED_SNIPPET = r'''
import sys, json
sys.path.insert(0, %r)
from synverif.props import c20
bad = []
n = nt = 0
for s in json.load(sys.stdin):
    r = c20.check_smiles(s)
    n += 1
    nt += 1 if r.nontrivial else 0
    for f in r.failures:
        bad.append(f)
print(json.dumps({"n": n, "nt": nt, "bad": bad[:20]}))
'''


def run_hashseeds(shard, smiles, seeds):
    root = os.path.dirname(os.path.dirname(os.path.dirname(os.path.abspath(__file__))))
    for hs in seeds:
        env = dict(os.environ, PYTHONHASHSEED=str(hs))
        p = subprocess.run([sys.executable, "-c", HASHSEED_SNIPPET % root], input=json.dumps(smiles), capture_output=True,
                           text=True, env=env, timeout=3000)
        if p.returncode != 0:
            raise RuntimeError("hash-seed subprocess failed: " + p.stderr[-500:])
        out = json.loads(p.stdout.strip().splitlines()[-1])
        shard.cases += out["n"]
        shard.evaluations += out["n"]
        shard.classes["hashseed:%d" % hs] += out["n"]
        for f in out["bad"]:
            f = dict(f)
            f["bucket"] = f["bucket"] + "@hashseed"
            f["case"] = {"smiles": f["detail"].get("smiles"), "hashseed": hs}
            f["index"] = 0
            f["shard"] = shard.name
            shard.failures.append(f)


def shards(tier):
    q = tier == "quick"
    out = []
    for i in range(4):
        out.append({"name": "corpus:%d" % i, "kind": "corpus", "part": i, "of": 4 * (3 if q else 1)})
    out.append({"name": "enol-seeds", "kind": "seeds"})
    for i in range(10):
        out.append({"name": "hyp:%d" % i, "kind": "hyp", "examples": 500 if q else 8000})
    out.append({"name": "hashseeds", "kind": "hashseeds", "seeds": [1, 2] if q else list(range(1, 13))})
    return out


def run_shard(spec, seed, tier, shard):
    k = spec["kind"]
    if k == "hyp":
        explore(shard, enol_rich(), lambda s: check_smiles(s), spec["examples"], seed)
    elif k == "corpus":
        for i, m in enumerate(gen.load_molecules(True)):
            if i % spec["of"] == spec["part"]:
                shard.add(m, check_smiles(m), i)
        shard.exhaustive = spec["of"] == 4
    elif k == "seeds":
        i = 0
        for s in ENOL_SEEDS:
            m = Chem.MolFromSmiles(s)
            if m is None:
                continue
            shard.add(s, check_smiles(s), i)
            i += 1
            for root in range(m.GetNumAtoms()):
                if "." in s:
                    break
                v = Chem.MolToSmiles(m, rootedAtAtom=root, canonical=False)
                shard.add(v, check_smiles(v), i)
                i += 1
        shard.exhaustive = True
    elif k == "hashseeds":
        sample = list(ENOL_SEEDS) + [m for i, m in enumerate(gen.load_molecules(True, 30)) if i % 40 == 0 and n_groups(m) != 0][:400]
        run_hashseeds(shard, sample, spec["seeds"])


def shrink_shard(spec, seed, tier, bucket, index, cap_s):
    if spec["kind"] == "hyp":
        return shrink(enol_rich(), lambda s: check_smiles(s), bucket, seed, index, spec["examples"], cap_s)
    return None


def replay(case, spec):
    if isinstance(case, dict) and "hashseed" in case:
        env = dict(os.environ, PYTHONHASHSEED=str(case["hashseed"]))
        root = os.path.dirname(os.path.dirname(os.path.dirname(os.path.abspath(__file__))))
        p = subprocess.run([sys.executable, "-c", HASHSEED_SNIPPET % root], input=json.dumps([case["smiles"]]),
                           capture_output=True, text=True, env=env, timeout=600)
        out = json.loads(p.stdout.strip().splitlines()[-1])
        return [dict(f, bucket=f["bucket"] + "@hashseed") for f in out["bad"]]
    return check_smiles(case).failures


KNOWN_PREDICATES = {}
