"""C11 — MCS-stage timeouts and failures are contained to the affected reaction (fault enumeration)."""
import itertools
import time

from hypothesis import strategies as st

from .. import faults, gen, oracle, pipe, pipeprops as pp
from ..runner import CaseResult, case_key, explore, shrink

ID = "C11"
LEVEL = "fault_enumeration"
REPLAY_TRIES = 5   # the late-write race is real time: a violation must reproduce on >=1 of 5 replays
RULE = ("Batches of 3-6 size-capped reactions (MCS-prone corpus reactions mixed with rule-based / balanced ones) x a "
        "fault plan over the (reaction, search condition) jobs of the substructure search and the per-reaction "
        "fragment-analysis jobs, each none | internal exception | timeout(delay 60-600 ms, or 2.6 s = longer than the 2 s job budget, so that a job queued behind the abandoned one would time out too). Enumerated for fixed "
        "batches: every single-job fault of both kinds and every per-reaction 'all three conditions fail' plan; "
        "Hypothesis draws multi-fault plans beyond. Injection (harness only, n_jobs=1): ThreadPool shim that delays the "
        "planned job and shortens the caller's wait to 50 ms (a genuine TimeoutError; the abandoned thread keeps running "
        "and writes late into the returned record), exceptions raised inside MCSMissingGraphAnalyzer.fit / "
        "FindMissingGraphs.find_missing_parts_pairs. Batches may hold the same reaction several times. Oracle: no row lost; rows of reactions without a planned fault equal "
        "the fault-free baseline of the same batch; every affected row is solved and oracle-balanced, or unsolved with "
        "reaction == input_reaction and a non-empty issue; and the same batch run again without faults gives the "
        "baseline again (nothing is left behind). Non-trivial = plan with >=1 fault on a reaction that is "
        "MCS-solved in the baseline; distinct = distinct (batch, plan).")
ASSUMPTIONS = [
    "faults are injected with n_jobs=1 only (patches do not reach joblib worker processes; there results are pickled "
    "on return and a late write cannot reach the caller)",
    "a joblib worker process dying mid-batch and exceptions raised by single_mcs itself are outside the fault model",
    "timing: the late write of an abandoned search thread is exercised with real threads and generated delays; a race "
    "window narrower than the delay grid can be missed; an unplanned timeout text makes the case inconclusive unless an immediate fault-free control run of the same batch shows none (then it is attributed to the injected fault)",
    "a violation is reported only if it reproduces on at least one of 5 replays in a fresh process",
]


def run_with_plan(rxs, mcs_plan, graph_plan):
    faults.install()
    faults.PLAN.reset(mcs_plan, graph_plan)
    try:
        rows, stats = pipe.run(rxs, n_jobs=1, threshold=0)
    finally:
        log = list(faults.PLAN.log)
        faults.drain()
        faults.PLAN.reset({}, {})
    return rows, log


_BASE = {}


def baseline(rxs):
    k = tuple(rxs)
    if k not in _BASE:
        _BASE[k] = run_with_plan(rxs, {}, {})
    return _BASE[k]


def decode_plan(plan):
    mcs, graph = {}, {}
    for f in plan:
        act = ("raise",) if f["kind"] == "raise" else ("timeout", f["delay"])
        if f["job"] == "graph":
            graph[str(f["rid"])] = act
        else:
            mcs[(str(f["rid"]), int(f["cond"]))] = act
    return mcs, graph


def check_case(case, spec=None):
    res = CaseResult()
    rxs, plan = case["reactions"], case["plan"]
    if case.get("fresh"):
        # the faulted run is the very first thing a new Balancer sees (the baseline comes from another new Balancer),
        # so that nothing a fault-free run may have memoised can mask the fault
        pipe._BAL.clear()
        base_rows, base_log = run_with_plan(rxs, {}, {})
        pipe._BAL.clear()
        res.tag("fresh-balancer")
    else:
        base_rows, base_log = baseline(rxs)
    if len(base_rows) != len(rxs):
        res.inconclusive = "baseline row count (C05)"
        return res
    if any(pipe.is_timeout_issue(r) for r in base_rows):
        res.inconclusive = "unplanned timeout in baseline"
        return res
    jobs_in_base = {k for k, _ in base_log}
    mcs, graph = decode_plan(plan)
    # keep only faults on jobs that exist for this batch
    mcs = {k: v for k, v in mcs.items() if ("mcs", k[0], k[1]) in jobs_in_base}
    graph = {k: v for k, v in graph.items() if ("graph", k) in jobs_in_base}
    if not mcs and not graph:
        res.tag("plan-hits-no-job")
        return res
    try:
        rows, log = run_with_plan(rxs, mcs, graph)
    except Exception as e:
        res.fail("run-raises:" + type(e).__name__, "no row lost", reactions=rxs, plan=plan, error=str(e)[:300])
        return res
    detail = dict(reactions=rxs, plan=plan)
    if len(rows) != len(rxs):
        res.fail("rows-lost", "no row lost", n_in=len(rxs), n_out=len(rows), **detail)
        return res
    affected = {k[0] for k in mcs} | set(graph)
    control = {"rows": None}

    def fault_attributable():
        """an unplanned timeout text: run the same batch again without faults. If that control run shows no timeout
        the machine is not the cause, the injected fault spread to another reaction (e.g. a job queued behind the
        abandoned one); if the control run shows timeouts too, the case is inconclusive (machine load)."""
        if control["rows"] is None:
            control["rows"], _ = run_with_plan(rxs, {}, {})
        return not any(pipe.is_timeout_issue(r) for r in control["rows"])
    planned_timeout_ids = {k[0] for k, v in mcs.items() if v[0] == "timeout"} | {k for k, v in graph.items() if v[0] == "timeout"}
    n_nt = 0
    for i, (inp, row, b) in enumerate(zip(rxs, rows, base_rows)):
        rid = str(i)
        if rid not in affected:
            if pipe.is_timeout_issue(row) and not fault_attributable():
                res.inconclusive = "unplanned timeout"
                return res
            if pipe.row_key(row) != pipe.row_key(b):
                res.fail("unaffected-row-changed", "other reactions unchanged", index=i, input=inp, got=pipe.row_key(row),
                         baseline=pipe.row_key(b), **detail)
            continue
        if pipe.is_timeout_issue(row) and rid not in planned_timeout_ids and not fault_attributable():
            res.inconclusive = "unplanned timeout"
            return res
        kinds = sorted({v[0] for k, v in mcs.items() if k[0] == rid} | ({graph[rid][0]} if rid in graph else set()))
        where = ("graph" if rid in graph else "") + ("mcs" if any(k[0] == rid for k in mcs) else "")
        res.tag("fault:" + "+".join(kinds) + "@" + where)
        if b.get("solved_by") == "mcs-based":
            n_nt += 1
        if row.get("solved"):
            bal = oracle.balanced(row.get("reaction"))
            if bal is not True:
                res.fail("affected-row-solved-unbalanced", "affected: solved and balanced, or declined unchanged", index=i,
                         input=inp, row=pipe.row_key(row), baseline=pipe.row_key(b), **detail)
            else:
                res.tag("affected:still-solved")
        else:
            if row.get("reaction") != row.get("input_reaction"):
                res.fail("affected-row-declined-altered", "affected: solved and balanced, or declined unchanged", index=i,
                         input=inp, row=pipe.row_key(row), input_reaction=row.get("input_reaction"), **detail)
            elif pipe.isnull(row.get("issue")):
                res.fail("affected-row-declined-without-issue", "affected: solved and balanced, or declined unchanged",
                         index=i, input=inp, row=pipe.row_key(row), **detail)
            else:
                res.tag("affected:declined")
    # aftermath: a fault must not leave anything behind on the Balancer - the same batch run again WITHOUT faults
    # has to give the fault-free baseline again (rows of the affected reactions included)
    if case.get("aftermath", True) and not res.failures:
        try:
            rows2, _ = run_with_plan(rxs, {}, {})
        except Exception as e:
            res.fail("aftermath-run-raises:" + type(e).__name__, "fault contained to its run", error=str(e)[:200], **detail)
            return res
        if len(rows2) != len(rxs):
            res.fail("aftermath-rows-lost", "fault contained to its run", n_out=len(rows2), **detail)
        elif not any(pipe.is_timeout_issue(r) for r in rows2):
            for i, (r2, b) in enumerate(zip(rows2, base_rows)):
                if pipe.row_key(r2) != pipe.row_key(b):
                    res.fail("fault-left-state-behind", "fault contained to its run", index=i, input=rxs[i],
                             got=pipe.row_key(r2), baseline=pipe.row_key(b), **detail)
                    break
        res.tag("aftermath-run")
    res.nontrivial = n_nt > 0
    res.evals = len(rxs)
    return res


@st.composite
def fault_case(draw):
    rx = st.one_of(gen.mcs_prone_reaction(22, 3), gen.mcs_prone_reaction(22, 3), gen.mcs_prone_reaction(22, 3),
                   pp.closed_shell_rx(gen.any_reaction(max_heavy=22, max_mols=3, weights=(3, 4, 2, 1))))
    rxs = [r[0] for r in draw(st.lists(rx, min_size=3, max_size=6))]
    if draw(st.integers(0, 2)) == 0:
        # the same reaction more than once in the batch (a fault on one copy must not touch the other)
        k = draw(st.integers(0, len(rxs) - 1))
        rxs.insert(draw(st.integers(0, len(rxs))), rxs[k])
    n = len(rxs)
    fault = st.fixed_dictionaries({
        "rid": st.integers(0, n - 1),
        "job": st.sampled_from(["mcs", "mcs", "graph"]),
        "cond": st.integers(0, 2),
        "kind": st.sampled_from(["raise", "timeout", "timeout"]),
        "delay": st.sampled_from([0.06, 0.1, 0.15, 0.25, 0.4, 0.6, 0.1, 0.25, 2.6]),
    })
    plan = draw(st.lists(fault, min_size=1, max_size=5))
    # at most one long-running abandoned job (longer than the 2 s job budget) per plan: it costs real time
    seen_long = False
    for f in plan:
        if f["delay"] > 2:
            if seen_long or f["kind"] != "timeout":
                f["delay"] = 0.25
            seen_long = True
    if draw(st.integers(0, 3)) == 0:
        rid = draw(st.integers(0, n - 1))
        kind = draw(st.sampled_from(["raise", "timeout"]))
        plan = [{"rid": rid, "job": "mcs", "cond": c, "kind": kind, "delay": 0.1} for c in range(3)] + plan[:2]
    return {"reactions": rxs, "plan": plan}


FIXED_BATCHES = [
    ["CC(=O)OCC>>CC(=O)O", "CCO>>CC=O", "CC(=O)OCC>>CC(=O)O", "COC(=O)c1ccccc1>>OC(=O)c1ccccc1", "CC(=O)OCC>>CC(=O)O"],
    ["CC(=O)OCC>>CC(=O)O", "COC(=O)c1ccccc1>>OC(=O)c1ccccc1", "CCO>>CC=O", "CC(=O)Nc1ccccc1>>Nc1ccccc1"],
    ["CCOC(=O)CC>>CCC(=O)O", "CC(=O)OC(C)=O.Nc1ccccc1>>CC(=O)Nc1ccccc1", "CCBr.[OH-]>>CCO", "c1ccccc1COC(C)=O>>c1ccccc1CO",
     "CC(C)(C)OC(=O)NCc1ccccc1>>NCc1ccccc1"],
]


def enum_plans(rxs, delays):
    n = len(rxs)
    for rid in range(n):
        for cond in range(3):
            yield [{"rid": rid, "job": "mcs", "cond": cond, "kind": "raise", "delay": 0}]
            for d in delays:
                yield [{"rid": rid, "job": "mcs", "cond": cond, "kind": "timeout", "delay": d}]
        yield [{"rid": rid, "job": "graph", "cond": 0, "kind": "raise", "delay": 0}]
        for d in delays:
            yield [{"rid": rid, "job": "graph", "cond": 0, "kind": "timeout", "delay": d}]
        for kind in ("raise", "timeout"):
            yield [{"rid": rid, "job": "mcs", "cond": c, "kind": kind, "delay": 0.1} for c in range(3)]
        # an abandoned job that outlives the 2 s job budget (must not hold up the jobs of later reactions)
        yield [{"rid": rid, "job": "mcs", "cond": 0, "kind": "timeout", "delay": 2.6}]
        yield [{"rid": rid, "job": "graph", "cond": 0, "kind": "timeout", "delay": 2.6}]


def shards(tier):
    q = tier == "quick"
    out = [{"name": "hyp:%d" % i, "kind": "hyp", "examples": 30 if q else 400} for i in range(12)]
    for i in range(len(FIXED_BATCHES)):
        for part in range(2):
            out.append({"name": "single-faults:%d.%d" % (i, part), "kind": "enum", "batch": i, "part": part, "of": 2,
                        "delays": [0.1] if q else [0.06, 0.1, 0.2, 0.4], "weight": 10 ** 4})
    return out


def run_shard(spec, seed, tier, shard):
    if spec["kind"] == "hyp":
        explore(shard, fault_case(), check_case, spec["examples"], seed)
    else:
        rxs = FIXED_BATCHES[spec["batch"]]
        for i, plan in enumerate(enum_plans(rxs, spec["delays"])):
            if i % spec["of"] != spec["part"]:
                continue
            c = {"reactions": rxs, "plan": plan}
            shard.add(c, check_case(c), i)
            # fragment-analysis faults and 'all conditions fail' plans once more with the fault as the first thing a
            # brand-new Balancer sees
            if plan[0]["job"] == "graph" and plan[0]["delay"] < 2 or len(plan) == 3:
                c2 = dict(c, fresh=True)
                shard.add(c2, check_case(c2), 100000 + i)
        pipe._BAL.clear()
        shard.exhaustive = True


def shrink_shard(spec, seed, tier, bucket, index, cap_s):
    if spec["kind"] == "hyp":
        return shrink(fault_case(), check_case, bucket, seed, index, spec["examples"], cap_s)
    return None


def replay(case, spec):
    return check_case(case).failures


KNOWN_PREDICATES = {}
