"""C19 — the rule database stays consistent under any sequence of add / bulk-add / remove operations."""
import copy
import itertools
import json
import os

from hypothesis import strategies as st

from .. import gen, oracle
from ..runner import CaseResult, case_key, explore, shrink

ID = "C19"
LEVEL = "exploration"
RULE = ("Operation histories on RuleImputeManager started from an empty database and from each shipped database "
        "(rules_manager, automated_rules; de-duplicated by first occurrence, the shipped records themselves being "
        "checked once as they are): add_entry / add_entries / remove_entry over an alphabet of valid, invalid, "
        "duplicate-formula, duplicate-SMILES, charged, Z>86, other-spelling and case-/blank-variant-formula compounds (plus formulas/SMILES taken "
        "from the starting database). Exhaustive over ALL histories of length <=3 on the fixed alphabet for the empty "
        "start (length <=2 for the shipped starts), Hypothesis histories up to length 30 with drawn compounds, and a "
        "hypothesis.stateful RuleBasedStateMachine. Model = ordered list of (formula, SMILES). Invariant after every "
        "step: database == model in order; every Composition == oracle composition with explicit Q (0 included); "
        "formulas pairwise distinct; SMILES strings pairwise distinct; a rejected add leaves the database unchanged and "
        "is reported (ValueError / returned list); remove deletes exactly the first entry with that formula. "
        "Non-trivial = history with >=1 rejected add and >=1 effective removal; distinct = distinct histories.")
ASSUMPTIONS = [
    "uniqueness is string identity of formula and SMILES (what the manager claims), not chemical identity",
    "entries passed to add_entries are dictionaries with both 'formula' and 'smiles' keys",
    "RDKit trusted for validity and for the oracle composition",
]

ALPHABET = [
    ("H2O", "O"), ("CO2", "O=C=O"), ("H4N+", "[NH4+]"), ("Cl-", "[Cl-]"), ("C2H6O", "CCO"), ("EtOH", "OCC"),
    ("U", "[U]"), ("SO4^2-", "[O-]S(=O)(=O)[O-]"), ("bad", "C1CC"), ("bad2", "xx"), ("H2O", "[OH2]"), ("water", "O"),
    ("D2O", "[2H]O[2H]"), ("Pu3+", "[Pu+3]"),
    # formulas that differ only in letter case / blanks are different names (carbon monoxide vs cobalt)
    ("CO", "[C-]#[O+]"), ("Co", "[Co]"),
]
REMOVE_EXTRA = ["co", "h2o", " H2O", "H2O ", "Hf", "cl-"]


def shipped(name):
    import synrbl.SynRuleImputer as pkg
    if name == "rules_manager":
        path = os.path.join(os.path.dirname(pkg.__file__), "rules_manager.json.gz")
    else:
        path = "/repo/Data/Rules/automated_rules.json.gz"
    raw = open(path, "rb").read()
    if raw[:2] == b"\x1f\x8b":
        import gzip
        raw = gzip.decompress(raw)
    return json.loads(raw.decode())


def start_db(name):
    """Starting database of a history: the shipped database de-duplicated by first occurrence of formula and of
    SMILES (the shipped duplicates themselves are checked once by the 'shipped' shard = known finding K19), so
    that the uniqueness invariant is meaningful for everything the *manager* does afterwards."""
    out, fs, ss = [], set(), set()
    for d in shipped(name):
        if d["formula"] in fs or d["smiles"] in ss:
            continue
        fs.add(d["formula"])
        ss.add(d["smiles"])
        out.append(copy.deepcopy(d))
    return out


def expected_comp(smiles):
    c = oracle.composition(smiles)
    d = dict(c[0])
    d["Q"] = c[1]
    return d


def check_db(res, db, model, step, history, start):
    if [(d.get("formula"), d.get("smiles")) for d in db] != model:
        res.fail("database-differs-from-model", "model", step=step, history=history, start=start,
                 database=[(d.get("formula"), d.get("smiles")) for d in db][-6:], model=model[-6:])
        return False
    fs = [d["formula"] for d in db]
    ss = [d["smiles"] for d in db]
    if len(set(fs)) != len(fs):
        dup = sorted({f for f in fs if fs.count(f) > 1})
        res.fail("duplicate-formula", "uniqueness", step=step, history=history, start=start, duplicates=dup)
    if len(set(ss)) != len(ss):
        dup = sorted({f for f in ss if ss.count(f) > 1})
        res.fail("duplicate-smiles", "uniqueness", step=step, history=history, start=start, duplicates=dup)
    for d in db:
        exp = expected_comp(d["smiles"])
        got = d.get("Composition")
        if got != exp:
            res.fail("composition-wrong", "composition", step=step, history=history, start=start, entry=d, expected=exp)
            break
    return True


def run_history(start, history):
    """history: list of ops: ["add", formula, smiles] | ["bulk", [[f, s], ...]] | ["remove", formula]"""
    from synrbl.SynRuleImputer.rule_data_manager import RuleImputeManager
    res = CaseResult()
    if start.startswith("shipped:"):
        # the shipped file as it is, no operation: composition and uniqueness of the records themselves
        init = copy.deepcopy(shipped(start.split(":")[1]))
        mgr = RuleImputeManager(init)
        check_db(res, mgr.database, [(d["formula"], d["smiles"]) for d in init], -1, history, start.split(":")[1])
        for f in res.failures:
            f["bucket"] = "shipped-" + f["bucket"]
        res.nontrivial = True
        return res
    init = [] if start == "empty" else start_db(start)
    mgr = RuleImputeManager(init if start != "empty" else None)
    model = [(d["formula"], d["smiles"]) for d in init]
    rejected = removed = 0

    def model_add(f, s):
        if any(m[0] == f for m in model) or any(m[1] == s for m in model) or oracle.parse(s) is None:
            return False
        model.append((f, s))
        return True
    for i, op in enumerate(history):
        before = copy.deepcopy(mgr.database)
        try:
            if op[0] == "add":
                ok = model_add(op[1], op[2])
                try:
                    mgr.add_entry(op[1], op[2])
                    raised = False
                except ValueError:
                    raised = True
                if ok and raised:
                    res.fail("valid-add-rejected", "add", step=i, op=op, history=history, start=start)
                if not ok:
                    rejected += 1
                    if not raised:
                        res.fail("invalid-add-accepted", "rejected and reported", step=i, op=op, history=history, start=start)
                    elif mgr.database != before:
                        res.fail("rejected-add-changed-db", "rejected without change", step=i, op=op, history=history, start=start)
            elif op[0] == "bulk":
                exp_rej = []
                for f, s in op[1]:
                    if not model_add(f, s):
                        exp_rej.append({"formula": f, "smiles": s})
                        rejected += 1
                got = mgr.add_entries([{"formula": f, "smiles": s} for f, s in op[1]])
                if got != exp_rej:
                    res.fail("bulk-reported-wrong", "rejected and reported", step=i, op=op, history=history, start=start,
                             reported=got, expected=exp_rej)
            elif op[0] == "remove":
                idx = next((j for j, m in enumerate(model) if m[0] == op[1]), None)
                if idx is not None:
                    model.pop(idx)
                    removed += 1
                mgr.remove_entry(op[1])
        except Exception as e:
            res.fail("raises:" + type(e).__name__, "no exception", step=i, op=op, history=history, start=start, error=str(e)[:200])
            break
        if not check_db(res, mgr.database, model, i, history, start):
            break
        if res.failures:
            break
    res.nontrivial = rejected >= 1 and removed >= 1
    res.evals = max(1, len(history))
    res.tag("start:" + start, "len:%d" % min(len(history), 10))
    if rejected:
        res.tag("has-rejected-add")
    if removed:
        res.tag("has-removal")
    return res


def check_case(case, spec=None):
    return run_history(case["start"], case["history"])


def op_alphabet(start):
    ops = []
    extra = []
    if start != "empty":
        db = shipped(start)
        extra = [(db[0]["formula"], "CCCC"), ("newf", db[1]["smiles"]), (db[2]["formula"], db[2]["smiles"])]
    for f, s in ALPHABET + extra:
        ops.append(["add", f, s])
    forms = sorted({f for f, _ in ALPHABET + extra}) + ["absent"] + REMOVE_EXTRA
    for f in forms:
        ops.append(["remove", f])
    ops.append(["bulk", [list(x) for x in ALPHABET[:5]]])
    ops.append(["bulk", [list(x) for x in (ALPHABET[8], ALPHABET[0], ALPHABET[11], ALPHABET[10], ALPHABET[2])]])
    return ops


@st.composite
def history_case(draw):
    start = draw(st.sampled_from(["empty", "empty", "rules_manager", "automated_rules"]))
    mol = st.one_of(st.sampled_from([s for _, s in ALPHABET]), gen.molecule(True, 12, True),
                    st.sampled_from(["C1CC", "xx", "", "C(C)(C)(C)(C)C"]))
    formula = st.one_of(st.sampled_from([f for f, _ in ALPHABET] + ["X1", "X2", "X3", "Cl2", "H3N", "NH3"] + REMOVE_EXTRA),
                        st.text("CHONacho +-0123456789", min_size=1, max_size=5))
    entry = st.tuples(formula, mol).map(list)
    op = st.one_of(
        st.tuples(st.just("add"), formula, mol).map(list),
        st.tuples(st.just("add"), formula, mol).map(list),
        st.tuples(st.just("remove"), formula).map(list),
        st.tuples(st.just("bulk"), st.lists(entry, min_size=0, max_size=5)).map(list),
    )
    hist = draw(st.lists(op, min_size=1, max_size=30))
    return {"start": start, "history": hist}


def shards(tier):
    q = tier == "quick"
    out = []
    for i in range(6):
        out.append({"name": "exhaustive-empty:%d" % i, "kind": "exh", "start": "empty", "maxlen": 3, "part": i, "of": 6})
    for s in ("rules_manager", "automated_rules"):
        for i in range(2):
            out.append({"name": "exhaustive-%s:%d" % (s, i), "kind": "exh", "start": s, "maxlen": 2 if q else 3, "part": i, "of": 2,
                        "stride": 1 if q else 7})
    for i in range(3 if q else 5):
        out.append({"name": "hyp:%d" % i, "kind": "hyp", "examples": 1500 if q else 20000})
    out.append({"name": "stateful", "kind": "stateful", "examples": 150 if q else 2000})
    out.append({"name": "shipped", "kind": "shipped"})
    return out


def _stateful(spec, seed, shard):
    import hypothesis
    from hypothesis import settings, HealthCheck
    from hypothesis.stateful import RuleBasedStateMachine, rule, invariant, initialize, run_state_machine_as_test
    from synrbl.SynRuleImputer.rule_data_manager import RuleImputeManager
    counters = {"steps": 0, "machines": 0, "nt": set()}
    comp = st.sampled_from(ALPHABET)

    class Machine(RuleBasedStateMachine):
        @initialize(start=st.sampled_from(["empty", "rules_manager", "automated_rules"]))
        def init(self, start):
            init = [] if start == "empty" else start_db(start)
            self.mgr = RuleImputeManager(init if start != "empty" else None)
            self.model = [(d["formula"], d["smiles"]) for d in init]
            self.trace = [start]
            self.rej = self.rem = 0
            counters["machines"] += 1

        def _ok(self, f, s):
            return not (any(m[0] == f for m in self.model) or any(m[1] == s for m in self.model) or oracle.parse(s) is None)

        @rule(c=comp)
        def add(self, c):
            self.trace.append(["add", c[0], c[1]])
            ok = self._ok(*c)
            before = copy.deepcopy(self.mgr.database)
            try:
                self.mgr.add_entry(c[0], c[1])
                raised = False
            except ValueError:
                raised = True
            assert ok != raised, ("add outcome", self.trace)
            if ok:
                self.model.append(tuple(c))
            else:
                self.rej += 1
                assert self.mgr.database == before, ("rejected add changed db", self.trace)

        @rule(cs=st.lists(comp, max_size=4))
        def bulk(self, cs):
            self.trace.append(["bulk", [list(c) for c in cs]])
            exp = []
            for c in cs:
                if self._ok(*c):
                    self.model.append(tuple(c))
                else:
                    exp.append({"formula": c[0], "smiles": c[1]})
                    self.rej += 1
            got = self.mgr.add_entries([{"formula": c[0], "smiles": c[1]} for c in cs])
            assert got == exp, ("bulk report", self.trace, got, exp)

        @rule(f=st.sampled_from(sorted({f for f, _ in ALPHABET}) + ["absent", "Cl2", "H3N"] + REMOVE_EXTRA))
        def remove(self, f):
            self.trace.append(["remove", f])
            idx = next((j for j, m in enumerate(self.model) if m[0] == f), None)
            if idx is not None:
                self.model.pop(idx)
                self.rem += 1
            self.mgr.remove_entry(f)

        @invariant()
        def consistent(self):
            if not hasattr(self, "mgr"):
                return
            counters["steps"] += 1
            db = self.mgr.database
            assert [(d["formula"], d["smiles"]) for d in db] == self.model, ("db != model", self.trace)
            fs = [d["formula"] for d in db]
            ss = [d["smiles"] for d in db]
            assert len(set(fs)) == len(fs) and len(set(ss)) == len(ss), ("duplicates", self.trace)
            for d in db:
                assert d["Composition"] == expected_comp(d["smiles"]), ("composition", d, self.trace)
            if self.rej and self.rem:
                counters["nt"].add(case_key(self.trace))

    err = None
    try:
        run_state_machine_as_test(
            hypothesis.seed(seed)(Machine),
            settings=settings(max_examples=spec["examples"], stateful_step_count=25, deadline=None, database=None,
                              suppress_health_check=list(HealthCheck), report_multiple_bugs=False, print_blob=False))
    except AssertionError as e:
        err = e
    shard.cases += counters["machines"]
    shard.evaluations += counters["steps"]
    shard.nt_keys.update(counters["nt"])
    shard.classes["stateful-machine-runs"] += counters["machines"]
    if err is not None:
        info = err.args[0] if err.args else str(err)
        trace = None
        if isinstance(info, tuple):
            trace = next((x for x in info if isinstance(x, list) and x and isinstance(x[0], str)), None)
        case = {"start": trace[0], "history": trace[1:]} if trace else {"start": "empty", "history": []}
        shard.failures.append({"bucket": "stateful:" + (info[0] if isinstance(info, tuple) else "assert"),
                               "clause": "stateful invariant", "detail": {"assertion": repr(info)[:800]},
                               "case": case, "index": 0, "shard": shard.name})


def run_shard(spec, seed, tier, shard):
    k = spec["kind"]
    if k == "hyp":
        explore(shard, history_case(), lambda c: check_case(c, spec), spec["examples"], seed)
    elif k == "exh":
        ops = op_alphabet(spec["start"])
        i = 0
        stride = spec.get("stride", 1)
        for L in range(1, spec["maxlen"] + 1):
            for j, hist in enumerate(itertools.product(ops, repeat=L)):
                if j % spec["of"] != spec["part"]:
                    continue
                if L == 3 and stride > 1 and (j // spec["of"]) % stride != 0:
                    continue
                c = {"start": spec["start"], "history": [list(o) for o in hist]}
                shard.add(c, check_case(c, spec), i)
                i += 1
        shard.exhaustive = stride == 1
        shard.extra["ops_alphabet"] = len(ops)
        shard.extra["max_history_length"] = spec["maxlen"]
    elif k == "stateful":
        _stateful(spec, seed, shard)
    elif k == "shipped":
        for i, name in enumerate(("rules_manager", "automated_rules")):
            c = {"start": "shipped:" + name, "history": []}
            shard.add(c, check_case(c, spec), i)
        shard.exhaustive = True


def shrink_shard(spec, seed, tier, bucket, index, cap_s):
    if spec["kind"] == "hyp":
        return shrink(history_case(), lambda c: check_case(c, spec), bucket, seed, index, spec["examples"], cap_s)
    return None


def replay(case, spec):
    return check_case(case, spec).failures


def k19_shipped_duplicates(f):
    """the shipped rules_manager database itself holds formula 'Cl2' twice and SMILES 'ClCl' and 'N' twice"""
    d = f.get("detail", {})
    return f.get("bucket", "").startswith("shipped-duplicate") and d.get("start") == "rules_manager" \
        and set(d.get("duplicates", [])) <= {"Cl2", "ClCl", "N"}


KNOWN_PREDICATES = {"k19_shipped_duplicates": k19_shipped_duplicates}
