"""C06 — a reaction's result row does not depend on its batch context (alone / together / order / batch size /
worker count / repeated run); statistics are additive over batches and independent of the partition."""
from hypothesis import strategies as st

from .. import gen, oracle, pipe, pipeprops as pp
from ..runner import CaseResult, case_key, explore, shrink

ID = "C06"
LEVEL = "exploration"
RULE = ("Sets of 3-10 size-capped valid reactions (<=30 heavy atoms per molecule, <=4 molecules per side; corpus, "
        "mutated balanced, template and assembled reactions, duplicates allowed). Each set is executed (a) one "
        "reaction at a time, (b) as one batch, (c) in a drawn permutation with a drawn batch size, (d) again on the "
        "same Balancer, and in the n_jobs shards (e) with 2/4/16 joblib workers. Metamorphic oracle: the row key "
        "(reaction, solved, method, confidence, rules, issue) of every reaction is identical in all contexts; the "
        "stats of a batched run equal the key-wise sum of the stats of its batches run separately and the stats of "
        "the unbatched run. Non-trivial = set with >=2 outcome classes and >=1 MCS-stage row; distinct = distinct "
        "(set, permutation, batch size, worker count).")
ASSUMPTIONS = [
    "wall clock is never an oracle: a case in which any row reports an MCS/fragment-analysis timeout is inconclusive",
    "a mismatch only counts if it reproduces when the shrunk case is replayed in a fresh process (runner replay step)",
    "joblib's process scheduling is varied through n_jobs but not controlled",
]


@st.composite
def context_case(draw, n_jobs_choices=(1,)):
    rx = pp.closed_shell_rx(gen.any_reaction(max_heavy=30, max_mols=4, weights=(6, 3, 2, 1)))
    items = draw(st.lists(rx, min_size=3, max_size=10))
    rxs = [i[0] for i in items]
    if draw(st.integers(0, 3)) == 0:
        rxs.append(rxs[draw(st.integers(0, len(rxs) - 1))])
    n = len(rxs)
    perm = draw(st.permutations(list(range(n))))
    bs = draw(st.integers(1, n))
    nj = draw(st.sampled_from(list(n_jobs_choices)))
    return {"reactions": rxs, "perm": list(perm), "batch_size": bs, "n_jobs": nj}


_ALONE = {}


def _alone(rxn):
    if rxn not in _ALONE:
        rows, st_ = pipe.run([rxn], n_jobs=1)
        _ALONE[rxn] = (rows[0], st_)
    return _ALONE[rxn]


def _sum_stats(list_of_stats):
    tot = {}
    for s in list_of_stats:
        for k, v in s.items():
            tot[k] = tot.get(k, 0) + v
    return tot


def check_case(case, spec=None):
    res = CaseResult()
    rxs = case["reactions"]
    n = len(rxs)
    nj = case.get("n_jobs", 1)
    contexts = {}
    stats = {}
    alone = [_alone(r) for r in rxs]
    contexts["alone"] = [a[0] for a in alone]
    stats["sum-of-singletons"] = _sum_stats([a[1] for a in alone])
    contexts["whole"], stats["whole"] = pipe.run(rxs, n_jobs=1)
    perm = case["perm"]
    prx = [rxs[i] for i in perm]
    bs = case["batch_size"]
    rows_p, stats["permuted-batched"] = pipe.run(prx, batch_size=bs, n_jobs=nj)
    if len(rows_p) == n:
        inv = [None] * n
        for pos, i in enumerate(perm):
            inv[i] = rows_p[pos]
        contexts["permuted-batched(n_jobs=%d)" % nj] = inv
    else:
        res.fail("row-count", "rows", reactions=rxs, perm=perm, batch_size=bs, n_out=len(rows_p))
        return res
    contexts["repeat"], stats["repeat"] = pipe.run(rxs, n_jobs=1)
    # batches of the permuted run executed as separate runs
    parts = [prx[i:i + bs] for i in range(0, n, bs)]
    part_stats = []
    part_rows = []
    for p in parts:
        r_, s_ = pipe.run(p, n_jobs=1)
        part_rows.extend(r_)
        part_stats.append(s_)
    stats["sum-of-batches"] = _sum_stats(part_stats)
    if nj != 1:
        rows_w, stats["whole(n_jobs=%d)" % nj] = pipe.run(rxs, n_jobs=nj)
        contexts["whole(n_jobs=%d)" % nj] = rows_w
    allrows = [r for rows in contexts.values() for r in rows]
    if any(pipe.is_timeout_issue(r) for r in allrows):
        res.inconclusive = "timeout text in a row"
        return res
    for name, rows in contexts.items():
        if len(rows) != n:
            res.fail("row-count", "rows", context=name, reactions=rxs, n_out=len(rows))
            return res
    base = [pipe.row_key(r) for r in contexts["alone"]]
    if not case.get("_rechecked") and any(pipe.row_key(r) != base[i] for rows in contexts.values() for i, r in enumerate(rows)):
        # wall clock is never an oracle (RDKit's 1 s search limit leaves no text behind when it cuts a search short
        # under load): evaluate the whole case once more from scratch; only a difference seen both times counts
        for r_ in rxs:
            _ALONE.pop(r_, None)
        again = check_case(dict(case, _rechecked=True), spec)
        if not any(f["bucket"].startswith("row-differs") for f in again.failures):
            res.inconclusive = "transient difference (not repeated on immediate re-run)"
            return res
    for name, rows in contexts.items():
        for i, r in enumerate(rows):
            k = pipe.row_key(r)
            if k != base[i]:
                field = [f for f, a, b in zip(("reaction", "solved", "solved_by", "confidence", "rules", "issue"), k, base[i]) if a != b]
                res.fail("row-differs:" + ("workers" if "n_jobs" in name and nj != 1 else "batch-context"),
                         "row independent of context", context=name, fields=field, index=i, reaction_input=rxs[i], got=k, alone=base[i], reactions=rxs, perm=perm,
                         batch_size=bs, n_jobs=nj)
                break
    ref = stats["whole"]
    for name, s in stats.items():
        if s != ref:
            res.fail("stats-differ", "stats additive / partition independent", context=name,
                     got=s, whole=ref, reactions=rxs, perm=perm, batch_size=bs, n_jobs=nj)
    classes = {("solved:" + str(r.get("solved_by"))) if r.get("solved") else "declined" for r in contexts["alone"]}
    mcs = any(r.get("solved_by") == "mcs-based" or (not r.get("solved")) for r in contexts["alone"])
    res.tag(*sorted(classes))
    res.tag("n_jobs=%d" % nj, "batches=%d" % len(parts))
    res.nontrivial = len(classes) >= 2 and mcs
    res.evals = len(contexts)
    return res


def strategy(spec):
    return context_case(tuple(spec.get("n_jobs", (1,))))


def shards(tier):
    q = tier == "quick"
    out = []
    for i in range(12 if q else 12):
        out.append({"name": "hyp:%d" % i, "kind": "hyp", "examples": 22 if q else 200})
    for i in range(2 if q else 4):
        out.append({"name": "hyp-njobs:%d" % i, "kind": "hyp", "examples": 12 if q else 120, "n_jobs": (2, 3, 4, 16), "procs": 4})
    return out


def run_shard(spec, seed, tier, shard):
    explore(shard, strategy(spec), lambda c: check_case(c, spec), spec["examples"], seed)


def shrink_shard(spec, seed, tier, bucket, index, cap_s):
    return shrink(strategy(spec), lambda c: check_case(c, spec), bucket, seed, index, spec["examples"], cap_s)


def replay(case, spec):
    return check_case(case, spec).failures


KNOWN_PREDICATES = {}
