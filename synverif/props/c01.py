"""C01 — a row reported as solved carries a parsable reaction balanced in every element and in charge."""
from .. import pipeprops as pp
from ..runner import case_key

ID = "C01"
LEVEL = "exploration"
RULE = ("Batches of 1-6 reactions (corpus reactions, curated balanced reactions with molecules dropped/duplicated/"
        "reversed/united/spectators incl. Z>86 and ions, redox template reactions over R groups, assembled reactions; "
        "1/4 respelled with atom maps) x batch size x threshold (x worker count in the n_jobs shard) run through "
        "Balancer.rebalance; every solved row judged by the independent balance oracle. Enumerated sub-domains: all "
        "template x R-group reactions, the Z>86 list (and in thorough the full closed-shell corpus). Non-trivial = a "
        "solved row whose reaction differs from its input (something was added); distinct = distinct input reaction "
        "strings among those rows.")
ASSUMPTIONS = [
    "RDKit parser/sanitiser and periodic table trusted (oracle composition = atoms + GetTotalNumHs + formal charges)",
    "inputs are reactions over closed-shell molecules (corpus rows with radical placeholders are filtered out)",
    "a run that does not return one row per input is left to C05 (counted as inconclusive here)",
]


def judge(case, rows, stats, res):
    for i, (inp, row) in enumerate(zip(case["reactions"], rows)):
        if not pp.valid_input(inp):
            res.tag("malformed-sibling-row")
            continue
        pp.c01_row(res, i, inp, row)
        res.tag(*pp.row_classes(inp, row))
        if row.get("solved") and row.get("reaction") != row.get("input_reaction"):
            res.nt_keys.append(case_key(inp))


M = pp.PipelineModule(judge, thresholds_strategy=pp.thresholds())
shards = M.std_shards
run_shard, shrink_shard, replay = M.run_shard, M.shrink_shard, M.replay
KNOWN_PREDICATES = {}
