"""C10 — MCS search reports genuine, correctly attributed, largest common substructures; results of different
reactions are never mixed up."""
import copy
import itertools
from collections import Counter

from hypothesis import strategies as st
from rdkit import Chem

from .. import gen, oracle
from ..runner import CaseResult, case_key, explore, shrink

ID = "C10"
LEVEL = "exploration"
RULE = ("Domain A: batches of 1-6 size-capped reaction dictionaries (unsolved MCS-prone corpus reactions, generated "
        "reactions, reactions whose searched side holds a stereoisomer or isotopologue pair, already-solved rows, "
        "duplicates, drawn order) through MCSSearch.find, and each reaction again alone. "
        "Oracle A: the multiset of canonical sorted_reactants equals the multiset of molecules on the carbon-richer side "
        "(products when the carbon label is 'reactants'); every non-empty mcs_results[i] is a SMARTS that "
        "HasSubstructMatch in sorted_reactants[i]; list lengths agree; mcs['id'] == the row's id; solved rows get no MCS "
        "data; the result in the batch equals the result alone. Domain B (selection): tables of 1-3 conditions x 1-3 "
        "reactions with entries from an alphabet of SMARTS lists incl. [], [''] and failed entries - ALL tables with one "
        "row (two rows in thorough) enumerated, larger ones drawn - through ExtractMCS.get_largest_condition. Oracle B: "
        "at most one retained entry per id, in input order, identical (same object) to one of that id's entries, with "
        "total atom count == the maximum over that id's entries; an id whose maximum is positive and attained by exactly "
        "one condition must be retained. Non-trivial (A) = reaction with >=2 molecules on the searched side and >=1 "
        "non-empty pattern; (B) = table with a tie or a failed entry. Distinct = distinct reaction / table.")
ASSUMPTIONS = [
    "RDKit's SMARTS parser and HasSubstructMatch are the reference for 'contained in'",
    "cases in which an entry reports a wall-clock timeout are inconclusive for the batch-vs-alone comparison",
    "ties between conditions and ids whose best entry has no atoms may be dropped by the selection step (the "
    "statement does not forbid it)",
]

ALPHABET = [
    [],
    [""],
    ["[#6]-[#6]"],
    ["[#6]-[#6]-[#8]", ""],
    ["[#6]", "[#6]-[#7]"],
    ["[#6]1:[#6]:[#6]:[#6]:[#6]:[#6]:1"],
    ["", "[#6]-[#6]-[#6]"],
    ["[#6]-[#6]1:[#6]:[#6]:[#6]:[#6]:[#6]:1"],
    ["[#6]-[#6]-[#6]-[#6]", "[#7]"],
]


def label(rxn):
    a, b = oracle.split_reaction(rxn)
    ca, cb = oracle.count_element(a, "C"), oracle.count_element(b, "C")
    return "balanced" if ca == cb else ("products" if ca > cb else "reactants")


def make_rows(rxs, solved_flags):
    rows = []
    for i, (r, s) in enumerate(zip(rxs, solved_flags)):
        a, b = oracle.split_reaction(r)
        rows.append({"id": str(i), "reaction": r, "input_reaction": r, "reactants": a, "products": b, "solved": bool(s),
                     "carbon_balance_check": label(r), "issue": ""})
    return rows


_SEARCH = None


def search():
    global _SEARCH
    if _SEARCH is None:
        from synrbl.mcs_search import MCSSearch
        _SEARCH = MCSSearch("id", solved_col="solved", mcs_data_col="mcs", issue_col="issue", n_jobs=1)
    return _SEARCH


_ALONE = {}


def alone(rxn):
    if rxn not in _ALONE:
        rows = make_rows([rxn], [False])
        search().find(rows)
        _ALONE[rxn] = rows[0]
    return _ALONE[rxn]


def summary(row):
    m = row.get("mcs")
    if m is None:
        return (None, row.get("issue"))
    return (tuple(m.get("mcs_results", [])), tuple(m.get("sorted_reactants", [])), m.get("issue"),
            tuple(map(str, m.get("smiles", []))), str(m.get("boundary_atoms_products")), str(m.get("nearest_neighbor_products")))


def is_timeout(row):
    txt = str(row.get("issue")) + str((row.get("mcs") or {}).get("issue"))
    return "timeout" in txt.lower()


def check_search(case, spec=None):
    res = CaseResult()
    rxs, flags = case["reactions"], case["solved"]
    rows = make_rows(rxs, flags)
    before = copy.deepcopy(rows)
    try:
        out = search().find(rows)
    except Exception as e:
        res.fail("find-raises:" + type(e).__name__, "no exception", reactions=rxs, solved=flags, error=str(e)[:300])
        return res
    if out is not rows and len(out) != len(rows):
        res.fail("row-count", "rows", reactions=rxs)
        return res
    res.evals = len(rows)
    for i, row in enumerate(rows):
        rxn = rxs[i]
        if flags[i]:
            if "mcs" in row and row.get("mcs") is not None:
                res.fail("solved-row-searched", "only unsolved rows", index=i, reaction=rxn)
            continue
        if row.get("id") != str(i) or row.get("reaction") != rxn:
            res.fail("row-identity-changed", "never mixed up", index=i, reaction=rxn, row_id=row.get("id"))
            continue
        m = row.get("mcs")
        if m is None:
            if not row.get("issue"):
                res.fail("no-mcs-without-issue", "issue", index=i, reaction=rxn)
            res.tag("no-mcs")
            continue
        if m.get("id") != str(i):
            res.fail("mcs-attached-to-wrong-row", "never mixed up", index=i, reaction=rxn, mcs_id=m.get("id"))
            continue
        pats, mols = m.get("mcs_results", []), m.get("sorted_reactants", [])
        if is_timeout(row):
            res.tag("timeout-entry")
        side = before[i]["products"] if before[i]["carbon_balance_check"] == "reactants" else before[i]["reactants"]
        if pats or mols:
            if len(pats) != len(mols):
                res.fail("length-mismatch", "lists agree", index=i, reaction=rxn, patterns=pats, molecules=mols)
                continue
            exp = oracle.molecule_multiset(side)
            got = Counter(oracle.canon(x) or ("<unparsable:%s>" % x) for x in mols)
            if got != exp:
                res.fail("molecule-list-differs", "molecule list = searched side", index=i, reaction=rxn, searched_side=side,
                         sorted_reactants=mols, label=before[i]["carbon_balance_check"])
                continue
            nonempty = 0
            for p, s in zip(pats, mols):
                if p == "":
                    continue
                q = Chem.MolFromSmarts(p)
                mol = Chem.MolFromSmiles(s)
                if q is None or mol is None:
                    res.fail("pattern-unparsable", "genuine substructure", index=i, reaction=rxn, pattern=p, molecule=s)
                    continue
                if q.GetNumAtoms() > 0:
                    nonempty += 1
                    if not mol.HasSubstructMatch(q):
                        res.fail("pattern-not-in-molecule", "genuine substructure", index=i, reaction=rxn, pattern=p,
                                 molecule=s, all_patterns=pats, all_molecules=mols)
            if len(mols) >= 2 and nonempty >= 1:
                res.nt_keys.append(case_key(rxn))
            res.tag("molecules:%d" % min(len(mols), 4), "label:" + before[i]["carbon_balance_check"])
        # batch vs alone
        a = alone(rxn)
        if is_timeout(row) or is_timeout(a):
            res.inconclusive = "timeout text"
        elif summary(row) != summary(a):
            # wall clock is never an oracle: RDKit's 1 s search limit can cut a search short under machine load without
            # leaving any text behind. Run both sides once more; only a difference that persists counts.
            _ALONE.pop(rxn, None)
            a2 = alone(rxn)
            rows2 = make_rows(rxs, flags)
            search().find(rows2)
            if summary(rows2[i]) != summary(a2) and summary(rows2[i]) == summary(row) and summary(a2) == summary(a):
                res.fail("differs-from-alone", "never mixed up", index=i, reaction=rxn, in_batch=summary(row), alone=summary(a),
                         reactions=rxs, solved=flags)
            else:
                res.inconclusive = "transient difference (not repeated on immediate re-run)"
    return res


def check_search_selection(case, spec=None):
    """find() must retain, per reaction, an entry whose total atom count is the maximum over the three search
    conditions as computed by a separate ensemble_mcs run on the same inputs."""
    from synrbl.SynMCSImputer.SubStructure.mcs_process import ensemble_mcs
    res = CaseResult()
    rxs = case["reactions"]
    rows = make_rows(rxs, [False] * len(rxs))
    conds = ensemble_mcs(copy.deepcopy(rows), search().conditions, id_col="id", issue_col="issue", n_jobs=1)
    rows2 = make_rows(rxs, [False] * len(rxs))
    search().find(rows2)
    res.evals = len(rxs)
    for i, row in enumerate(rows2):
        entries = [c[i] for c in conds]
        if any("timeout" in str(e.get("issue", "")).lower() for e in entries) or is_timeout(row):
            res.inconclusive = "timeout text"
            continue
        if any(e.get("id") != str(i) for e in entries):
            res.fail("ensemble-order", "never mixed up", index=i, ids=[e.get("id") for e in entries])
            continue
        totals = [natoms(e.get("mcs_results", [])) for e in entries]
        m = row.get("mcs")
        mx = max(totals)
        res.tag("condition-totals-" + ("equal" if len(set(totals)) == 1 else "differ"))
        if m is None:
            if mx > 0 and totals.count(mx) == 1:
                res.fail("search-dropped-unique-maximum", "largest retained", index=i, reaction=rxs[i], totals=totals)
            continue
        got = natoms(m.get("mcs_results", []))
        if got != mx:
            res.fail("search-retained-not-largest", "largest retained", index=i, reaction=rxs[i], totals=totals, retained=got)
        if len(set(totals)) > 1:
            res.nt_keys.append(case_key(rxs[i]))
    return res


# ------------------------------------------------------------------ selection

def natoms(pats):
    n = 0
    for p in pats:
        q = Chem.MolFromSmarts(p) if p else None
        n += q.GetNumAtoms() if q is not None else 0
    return n


def build_table(table):
    """table: list (conditions) of list (rows) of alphabet indices or -1 (failed entry)."""
    conds = []
    for c in table:
        rows = []
        for i, k in enumerate(c):
            if k < 0:
                rows.append({"id": str(i), "mcs_results": [], "sorted_reactants": [], "issue": "MCS identification failed."})
            else:
                pats = list(ALPHABET[k])
                rows.append({"id": str(i), "mcs_results": pats, "sorted_reactants": ["CCO"] * len(pats), "issue": ""})
        conds.append(rows)
    return conds


def check_selection(case, spec=None):
    from synrbl.SynMCSImputer.SubStructure.extract_common_mcs import ExtractMCS
    res = CaseResult()
    table = case["table"]
    conds = build_table(table)
    try:
        out = ExtractMCS.get_largest_condition(*conds)
    except Exception as e:
        res.fail("selection-raises:" + type(e).__name__, "no exception", table=table, error=str(e)[:200])
        return res
    nrows = len(table[0])
    ids_out = [o.get("id") for o in out]
    if ids_out != sorted(ids_out, key=int) or len(set(ids_out)) != len(ids_out):
        res.fail("selection-order-or-duplicates", "one per id, input order", table=table, ids=ids_out)
    tie = failed = False
    for i in range(nrows):
        entries = [c[i] for c in conds]
        totals = [natoms(e["mcs_results"]) for e in entries]
        mx = max(totals)
        if totals.count(mx) > 1:
            tie = True
        if any(k[i] < 0 for k in table):
            failed = True
        kept = [o for o in out if o.get("id") == str(i)]
        if len(kept) > 1:
            continue
        if kept:
            o = kept[0]
            if not any(o is e for e in entries):
                res.fail("selection-foreign-entry", "retained entry is one of that id's entries", table=table, row=i,
                         retained=o)
            elif natoms(o["mcs_results"]) != mx:
                res.fail("selection-not-largest", "largest total atom count", table=table, row=i, retained=o["mcs_results"],
                         totals=totals)
        elif mx > 0 and totals.count(mx) == 1:
            res.fail("selection-dropped-unique-maximum", "retained", table=table, row=i, totals=totals)
    res.nontrivial = tie or failed
    if tie:
        res.tag("tie")
    if failed:
        res.tag("failed-entry")
    res.tag("conditions:%d" % len(table), "rows:%d" % nrows)
    return res


# ------------------------------------------------------------------ strategies / shards

@st.composite
def search_case(draw):
    rx = st.one_of(gen.mcs_prone_reaction(25, 4), gen.mcs_prone_reaction(25, 4), gen.near_duplicate_pair_reaction(),
                   gen.any_reaction(max_heavy=25, max_mols=4, weights=(4, 3, 1, 2)).filter(
                       lambda t: oracle.reaction_closed_shell(t[0])))
    items = draw(st.lists(rx, min_size=1, max_size=6))
    rxs = [i[0] for i in items]
    if draw(st.integers(0, 3)) == 0:
        rxs.append(rxs[draw(st.integers(0, len(rxs) - 1))])
    flags = [draw(st.integers(0, 4)) == 0 for _ in rxs]
    return {"reactions": rxs, "solved": flags}


@st.composite
def table_case(draw):
    k = draw(st.integers(1, 3))
    n = draw(st.integers(1, 3))
    cell = st.integers(-1, len(ALPHABET) - 1)
    return {"table": [[draw(cell) for _ in range(n)] for _ in range(k)]}


def shards(tier):
    q = tier == "quick"
    out = [{"name": "hyp-search:%d" % i, "kind": "hyp-search", "examples": 100 if q else 600} for i in range(12)]
    for i in range(3):
        out.append({"name": "hyp-search-selection:%d" % i, "kind": "hyp-sel", "examples": 40 if q else 500})
    for i in range(2):
        out.append({"name": "hyp-tables:%d" % i, "kind": "hyp-table", "examples": 250 if q else 3000})
    for i in range(4):
        out.append({"name": "exhaustive-tables:%d" % i, "kind": "exh-table", "rows": 1 if q else 2, "part": i, "of": 4})
    return out


def _exh_tables(rows):
    cells = list(range(-1, len(ALPHABET)))
    if rows == 2:
        cells = cells[:7]
    for k in (1, 2, 3):
        for flat in itertools.product(cells, repeat=k * rows):
            yield {"table": [list(flat[c * rows:(c + 1) * rows]) for c in range(k)]}


def run_shard(spec, seed, tier, shard):
    k = spec["kind"]
    if k == "hyp-search":
        explore(shard, search_case(), check_search, spec["examples"], seed)
    elif k == "hyp-table":
        explore(shard, table_case(), check_selection, spec["examples"], seed)
    elif k == "hyp-sel":
        explore(shard, search_case(), check_search_selection, spec["examples"], seed)
    else:
        for i, c in enumerate(_exh_tables(spec["rows"])):
            if i % spec["of"] == spec["part"]:
                shard.add(c, check_selection(c), i)
        shard.exhaustive = True


def shrink_shard(spec, seed, tier, bucket, index, cap_s):
    k = spec["kind"]
    if k == "hyp-search":
        return shrink(search_case(), check_search, bucket, seed, index, spec["examples"], cap_s)
    if k == "hyp-table":
        return shrink(table_case(), check_selection, bucket, seed, index, spec["examples"], cap_s)
    if k == "hyp-sel":
        return shrink(search_case(), check_search_selection, bucket, seed, index, spec["examples"], cap_s)
    return None


def replay(case, spec):
    if "table" in case:
        return check_selection(case).failures
    if spec.get("kind") == "hyp-sel":
        return check_search_selection(case).failures
    return check_search(case).failures


KNOWN_PREDICATES = {}
