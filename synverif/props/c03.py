"""C03 — a declined reaction is returned untouched and with a reason; solved rows name a method and carry no issue;
carbon excess on the product side is always declined. Default threshold (0)."""
from hypothesis import strategies as st

from .. import gen, pipeprops as pp, oracle
from ..runner import case_key

ID = "C03"
LEVEL = "exploration"
RULE = ("Same reaction generator as C01 at the default threshold 0 (all batch sizes; worker counts 2/4/16 in one shard), "
        "enriched with reactions whose products carry more carbon than the reactants and with two-sided imbalances "
        "containing oxygen, and (1 reaction in 4) with product sides that repeat a carbon-containing molecule. Oracle: declined => reaction == input_reaction (string) and non-empty issue; solved => "
        "method in {input-balanced, rule-based, mcs-based} and empty/absent issue; oracle carbon(products) > "
        "carbon(reactants) => declined. Non-trivial = a declined row (went through the editing stages and had to be "
        "restored) or a row with product-side carbon excess; distinct = distinct input strings.")
ASSUMPTIONS = [
    "input rows do not pre-populate the tool's own output columns (plain SMILES strings are passed)",
    "RDKit trusted for carbon counting in the oracle",
]


def judge(case, rows, stats, res):
    for i, (inp, row) in enumerate(zip(case["reactions"], rows)):
        if not pp.valid_input(inp):
            res.tag("malformed-sibling-row")
            continue
        pp.c03_row(res, i, inp, row)
        res.tag(*[c for c in pp.row_classes(inp, row) if c.startswith(("solved", "declined"))])
        sp = oracle.split_reaction(inp)
        ca, cb = oracle.count_element(sp[0], "C"), oracle.count_element(sp[1], "C")
        if cb > ca:
            res.tag("carbon-excess-products")
        if not row.get("solved"):
            issue = str(row.get("issue"))
            res.tag("issue:" + issue[:40])
        if not row.get("solved") or cb > ca:
            res.nt_keys.append(case_key(inp))


_SMALL = ["CO", "C=O", "OC=O", "CC(=O)O", "OCCO", "CCO", "C", "CC=O", "CN", "O=C=O", "c1ccccc1", "CC(C)=O", "CCl"]


@st.composite
def repeated_product_reaction(draw):
    """product sides that list the same carbon-containing molecule several times (identical text): small A>>B.B(.B)
    reactions and curated balanced reactions with one of their products repeated once or twice more — most of them
    carry more carbon in the products than in the reactants"""
    if draw(st.booleans()):
        a = draw(st.lists(st.sampled_from(_SMALL + ["O", "[H][H]"]), min_size=1, max_size=2))
        b = draw(st.sampled_from(_SMALL))
        extra = draw(st.lists(st.sampled_from(_SMALL + ["O"]), max_size=1))
        prods = list(draw(st.permutations([b] * draw(st.integers(2, 3)) + extra)))
        return ".".join(a) + ">>" + ".".join(prods), ["repeated-product"]
    base = draw(gen.indexed(gen.load_reactions_capped("balanced", 30, 4)))
    a, b = oracle.split_reaction(base)
    pb = b.split(".")
    with_c = [m for m in pb if (oracle.count_element(m, "C") or 0) > 0] or pb
    m = draw(st.sampled_from(with_c))
    pb = pb + [m] * draw(st.integers(1, 2))
    return a + ">>" + ".".join(pb), ["repeated-product"]


def _rx(spec):
    base = pp.closed_shell_rx(gen.any_reaction(max_heavy=spec.get("max_heavy", 30), max_mols=4,
                                               weights=tuple(spec.get("weights", (4, 4, 3, 1)))))
    return st.one_of(gen.maybe_respelled(base, 4), gen.maybe_respelled(base, 4), gen.maybe_respelled(base, 4),
                     pp.closed_shell_rx(repeated_product_reaction()))


M = pp.PipelineModule(judge, rx_strategy=_rx, thresholds_strategy=None)


def shards(tier):
    out = M.std_shards(tier, n_hyp=9)
    q = tier == "quick"
    for i in range(2 if q else 4):
        out.append({"name": "hyp-assembled:%d" % i, "kind": "hyp", "examples": 110 if q else 1500, "weights": (1, 3, 1, 5)})
    return out


run_shard, shrink_shard, replay = M.run_shard, M.shrink_shard, M.replay
KNOWN_PREDICATES = {}
