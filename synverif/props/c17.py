"""C17 — benchmark comparison ignores molecule order and SMILES spelling: normalisation is idempotent and
order/spelling independent, such variants have similarity exactly 1; similarity is symmetric and within [0,1]."""
import functools
import itertools
import math

from hypothesis import strategies as st

from .. import gen, oracle
from ..runner import CaseResult, case_key, explore, shrink

ID = "C17"
LEVEL = "exploration"
RULE = ("Stereo-free valid reactions (curated balanced and corpus reactions with stereo marks stripped by the oracle, "
        "template reactions, and reactions assembled from *anagram isomer* groups mined from the seed molecules, i.e. "
        "different molecules whose canonical SMILES have equal length and equal character multiset such as CCCO/CCOC). "
        "For each: all permutations of the molecules within each side when a side has <=4 molecules (capped at 24 "
        "drawn otherwise) and 3-6 drawn equivalent spellings (atom order, kekule, explicit bonds/H, atom maps). Oracle: "
        "normalize(normalize(x)) == normalize(x); normalize(variant) == normalize(x); wc_similarity(x, variant, m) == 1 "
        "for the three methods; for drawn pairs of different reactions 0 <= s <= 1, |s(a,b)-s(b,a)| <= 1e-12 and no "
        "exception. One shard goes end to end through `synrbl benchmark` (rows whose reaction is a variant of the expected reaction must all be counted correct). Non-trivial = a side holding >=2 molecules with equal (atom count, character sum) sort key, or a "
        "respelled variant; distinct = distinct (reaction, variant) strings.")
ASSUMPTIONS = [
    "stereo-free inputs (the statement's domain); hypervalent explicit-H atoms (known finding K15) are excluded by "
    "construction",
    "floating point: symmetry tolerance 1e-12, range tolerance 1e-12",
]
METHODS = ("pathway", "ecfp", "ecfp_inv")


def _norm(s):
    from synrbl.SynUtils.chem_utils import normalize_smiles
    return normalize_smiles(s)


def _sim(a, b, m):
    from synrbl.SynUtils.chem_utils import wc_similarity
    return wc_similarity(a, b, method=m)


def _key(s):
    from synrbl.SynUtils.chem_utils import count_atoms
    return (count_atoms(s), sum(ord(c) for c in s))


@functools.lru_cache(maxsize=None)
def anagram_groups():
    groups = {}
    for s in gen.load_molecules(True, 14):
        c = oracle.canon(s, isomeric=False)
        if c is None or "@" in c or "/" in c or "\\" in c or gen.hypervalent_h(c) or "." in c:
            continue
        groups.setdefault("".join(sorted(c)), set()).add(c)
    out = [tuple(sorted(v)) for v in groups.values() if len(v) >= 2]
    out.sort(key=lambda g: (len(g[0]), g))
    return tuple(out)


def strip_stereo(rxn):
    a, b = oracle.split_reaction(rxn)
    def side(s):
        parts = []
        for p in s.split("."):
            c = oracle.canon(p, isomeric=False)
            if c is None or gen.hypervalent_h(c):
                return None
            parts.append(c)
        return ".".join(parts)
    sa, sb = side(a), side(b)
    if sa is None or sb is None:
        return None
    return sa + ">>" + sb


@st.composite
def anagram_reaction(draw):
    groups = anagram_groups()
    g = draw(gen.indexed(groups))
    k = draw(st.integers(2, min(4, len(g))))
    mols = list(draw(st.permutations(list(g))))[:k]
    other = draw(gen.indexed(gen.load_molecules(True, 12)))
    other = oracle.canon(other, isomeric=False)
    if draw(st.booleans()):
        return ".".join(mols) + ">>" + other
    g2 = draw(gen.indexed(groups))
    return ".".join(mols) + ">>" + ".".join(g2[:2])


@st.composite
def base_reaction(draw):
    src = draw(st.sampled_from(["anagram", "anagram", "balanced", "corpus", "template", "mutated"]))
    if src == "anagram":
        r = draw(anagram_reaction())
    elif src == "balanced":
        r = draw(gen.indexed(gen.load_reactions_capped("balanced", 40, 5)))
    elif src == "corpus":
        r = draw(gen.corpus_reaction(30, 4))[0]
    elif src == "template":
        r = draw(gen.template_reaction())[0]
    else:
        r = draw(gen.mutated_balanced_reaction(30, 4))[0]
    if not oracle.reaction_closed_shell(r):
        r = "CCCO.CCOC>>CC"
    s = strip_stereo(r)
    return s if s is not None else "CCCO.CCOC>>CC"


@st.composite
def variant_case(draw):
    base = draw(base_reaction())
    a, b = oracle.split_reaction(base)
    variants = []
    pa, pb = a.split("."), b.split(".")
    if len(pa) <= 4 and len(pb) <= 4:
        perms = [(x, y) for x in itertools.permutations(pa) for y in itertools.permutations(pb)]
        if len(perms) > 24:
            idx = draw(st.lists(st.integers(0, len(perms) - 1), min_size=24, max_size=24))
            perms = [perms[i] for i in idx]
    else:
        perms = [(draw(st.permutations(pa)), draw(st.permutations(pb))) for _ in range(12)]
    for x, y in perms:
        variants.append(".".join(x) + ">>" + ".".join(y))
    for _ in range(draw(st.integers(3, 6))):
        v = draw(gen.respell_reaction(base))
        if "@" in v or "/" in v or "\\" in v:
            continue
        variants.append(v)
    other = draw(base_reaction())
    return {"base": base, "variants": variants, "other": other}


def check_case(case, spec=None):
    res = CaseResult()
    base = case["base"]
    try:
        n0 = _norm(base)
    except Exception as e:
        res.fail("normalize-raises:" + type(e).__name__, "no exception", reaction=base, error=str(e))
        return res
    try:
        n00 = _norm(n0)
        if n00 != n0:
            res.fail("not-idempotent", "idempotent", reaction=base, once=n0, twice=n00)
    except Exception as e:
        res.fail("normalize-raises-on-own-output", "idempotent", reaction=base, once=n0, error=str(e))
    a, b = oracle.split_reaction(base)
    tie = False
    for side in (a, b):
        keys = [_key(oracle.canon(p, False) or p) for p in side.split(".")]
        mols = [oracle.canon(p, False) for p in side.split(".")]
        for i in range(len(keys)):
            for j in range(i + 1, len(keys)):
                if keys[i] == keys[j] and mols[i] != mols[j]:
                    tie = True
    if tie:
        res.tag("sort-key-tie")
    n_eval = 0
    for v in case["variants"]:
        n_eval += 1
        respelled = sorted(v.replace(">>", ".").split(".")) != sorted(base.replace(">>", ".").split("."))
        try:
            nv = _norm(v)
        except Exception as e:
            res.fail("normalize-raises:" + type(e).__name__, "no exception", reaction=v, base=base, error=str(e))
            continue
        if nv != n0:
            res.fail("variant-normalises-differently:" + ("spelling" if respelled else "order"), "order/spelling independent",
                     base=base, variant=v, norm_base=n0, norm_variant=nv)
            continue
        for m in METHODS:
            try:
                s1, s2 = _sim(base, v, m), _sim(v, base, m)
            except Exception as e:
                res.fail("similarity-raises:" + type(e).__name__, "no exception", base=base, variant=v, method=m, error=str(e))
                continue
            if s1 != 1 or s2 != 1:
                res.fail("variant-similarity-not-1", "similarity exactly 1", base=base, variant=v, method=m, s=[float(s1), float(s2)])
        if tie or respelled:
            res.nt_keys.append(case_key([base, v]))
        if respelled:
            res.tag("respelled-variant")
        else:
            res.tag("permuted-variant")
    other = case.get("other")
    if other:
        for m in METHODS:
            n_eval += 1
            try:
                s1, s2 = float(_sim(base, other, m)), float(_sim(other, base, m))
            except Exception as e:
                res.fail("similarity-raises:" + type(e).__name__, "no exception", a=base, b=other, method=m, error=str(e)[:200])
                continue
            if math.isnan(s1) or math.isnan(s2) or not (-1e-12 <= s1 <= 1 + 1e-12) or not (-1e-12 <= s2 <= 1 + 1e-12):
                res.fail("similarity-out-of-range", "range", a=base, b=other, method=m, s=[s1, s2])
            elif abs(s1 - s2) > 1e-12:
                res.fail("similarity-asymmetric", "symmetric", a=base, b=other, method=m, s=[s1, s2])
        res.tag("pair")
    res.evals = n_eval
    return res


def check_benchmark(case, spec=None):
    """end to end through `synrbl benchmark`: every row's reaction is an order/spelling variant of its expected
    reaction, so with the default similarity threshold 1 every solved row must be counted as correct."""
    import csv
    import json
    import os
    import shutil
    import tempfile
    res = CaseResult()
    rows = case["rows"]   # list of [expected, variant, solved_by]
    d = tempfile.mkdtemp(prefix="synverif-c17-", dir="/var/tmp")
    try:
        src, out = os.path.join(d, "run_out.csv"), os.path.join(d, "bench.json")
        with open(src, "w", newline="") as f:
            w = csv.writer(f)
            w.writerow(["reaction", "expected_reaction", "solved", "solved_by", "confidence"])
            for exp, var, by in rows:
                w.writerow([var, exp, True, by, 1.0 if by == "mcs-based" else ""])
        n_rb = sum(1 for r in rows if r[2] == "rule-based")
        n_mcs = sum(1 for r in rows if r[2] == "mcs-based")
        stats = {"reaction_cnt": len(rows), "balanced_cnt": 0, "rb_solved": n_rb, "rb_applied": n_rb, "mcs_solved": n_mcs,
                 "mcs_applied": n_mcs, "confident_cnt": n_mcs}
        json.dump(stats, open(src + ".stats", "w"))
        from synrbl.SynCmd import setup_argparser
        args = setup_argparser().parse_args(["benchmark", src, "-o", out, "--similarity-method", case.get("method", "pathway")])
        try:
            args.func(args)
        except Exception as e:
            res.fail("benchmark-raises:" + type(e).__name__, "no exception", rows=rows, error=str(e)[:300])
            return res
        got = json.load(open(out))
        if got.get("total_correct") != len(rows) or got.get("accuracy") != 1:
            # find the offending rows independently of the CLI's counters
            bad = [r for r in rows if _norm(r[0]) != _norm(r[1])]
            res.fail("benchmark-miscounts-variants", "variants compare as identical", rows=rows, reported=got,
                     rows_normalising_differently=bad[:3])
    finally:
        shutil.rmtree(d, ignore_errors=True)
    res.nontrivial = any(r[0] != r[1] for r in rows)
    res.evals = len(rows)
    res.tag("benchmark-cli")
    return res


@st.composite
def benchmark_case(draw):
    rows = []
    for _ in range(draw(st.integers(2, 6))):
        c = draw(variant_case())
        v = draw(st.sampled_from(c["variants"])) if c["variants"] else c["base"]
        rows.append([c["base"], v, draw(st.sampled_from(["rule-based", "mcs-based"]))])
    return {"rows": rows, "method": draw(st.sampled_from(list(METHODS)))}


def shards(tier):
    q = tier == "quick"
    out = [{"name": "hyp:%d" % i, "kind": "hyp", "examples": 700 if q else 6000} for i in range(15)]
    out.append({"name": "anagram-pairs", "kind": "anagram-enum"})
    out.append({"name": "benchmark-cli", "kind": "bench", "examples": 150 if q else 1500})
    return out


def run_shard(spec, seed, tier, shard):
    if spec["kind"] == "hyp":
        explore(shard, variant_case(), lambda c: check_case(c, spec), spec["examples"], seed)
    elif spec["kind"] == "bench":
        explore(shard, benchmark_case(), check_benchmark, spec["examples"], seed)
    else:
        i = 0
        for g in anagram_groups():
            for x, y in itertools.combinations(g[:6], 2):
                base = x + "." + y + ">>CC"
                c = {"base": base, "variants": [y + "." + x + ">>CC"], "other": "CC>>" + y + "." + x}
                shard.add(c, check_case(c, spec), i)
                i += 1
        shard.exhaustive = True
        shard.extra["anagram_groups"] = len(anagram_groups())


def shrink_shard(spec, seed, tier, bucket, index, cap_s):
    if spec["kind"] == "bench":
        return shrink(benchmark_case(), check_benchmark, bucket, seed, index, spec["examples"], cap_s)
    if spec["kind"] != "hyp":
        return None
    return shrink(variant_case(), lambda c: check_case(c, spec), bucket, seed, index, spec["examples"], cap_s)


def replay(case, spec):
    if "rows" in case:
        return check_benchmark(case, spec).failures
    return check_case(case, spec).failures


KNOWN_PREDICATES = {}
