"""C02 — rebalancing only adds whole molecules; the given molecules are never altered; input_reaction is the
input with atom maps removed."""
from hypothesis import strategies as st

from .. import gen, oracle, pipeprops as pp
from ..runner import case_key

ID = "C02"
LEVEL = "exploration"
RULE = ("C01's reaction generator restricted to closed-shell inputs without atomic placeholders, half of the cases "
        "enriched with molecules whose text contains the pipeline's marker substrings ('.[H]' via [H][H]/explicit-H "
        "spellings, '.OO' via H2O2/hydroperoxides/peracids, bracketed forms) inserted at drawn positions of either "
        "side, 1/4 respelled with atom maps. Oracle per side: canonical multiset(input) is contained in canonical "
        "multiset(output); input_reaction equals the input molecule-for-molecule (same order) with no map left. "
        "Non-trivial = row whose output differs from its input, or whose input carries a marker molecule or atom "
        "maps; distinct = distinct input strings.")
ASSUMPTIONS = [
    "molecule identity = RDKit canonical isomeric SMILES after clearing atom maps",
    "inputs contain no free atomic H/O placeholders and no radicals (filtered by construction)",
]


def judge(case, rows, stats, res):
    if case.get("carry"):
        res.tag("rows-carry-stale-input_reaction")
    for i, (inp, row) in enumerate(zip(case["reactions"], rows)):
        if not pp.valid_input(inp):
            res.tag("malformed-sibling-row")
            continue
        pp.c02_row(res, i, inp, row)
        res.tag(*[c for c in pp.row_classes(inp, row) if c.startswith(("solved", "declined", "redox", "mapped"))])
        tags = case["tags"][i] if i < len(case.get("tags", [])) else []
        marker = "markers" in tags
        if marker:
            res.tag("marker-input")
            if row.get("solved") and row.get("solved_by") != "input-balanced":
                res.tag("marker-input-solved-by-editing")
        if marker or row.get("reaction") != row.get("input_reaction") or oracle.has_atom_map(inp):
            res.nt_keys.append(case_key(inp))


def _rx(spec):
    base = pp.closed_shell_rx(gen.any_reaction(max_heavy=spec.get("max_heavy", 30), max_mols=4,
                                               weights=tuple(spec.get("weights", (4, 4, 3, 1)))))
    if spec.get("markers", True):
        base = st.one_of(base, pp.closed_shell_rx(gen.with_markers(base)))
    return gen.maybe_respelled(base, 4)


M = pp.PipelineModule(judge, rx_strategy=_rx, thresholds_strategy=pp.thresholds(), carry=True)


def _marker_enum(spec):
    """every marker molecule added to the product / reactant side of every template class (R = phenyl)."""
    rx = []
    for name, lhs, rhs in gen.TEMPLATES:
        for m in gen.MARKER_MOLS:
            if not oracle.closed_shell(m):
                continue
            for where in ("p", "r"):
                a, b = lhs.format(R="c1ccccc1"), rhs.format(R="c1ccccc1")
                s = (a + ">>" + b + "." + m) if where == "p" else (a + "." + m + ">>" + b)
                if oracle.balanced(s) is not None:
                    rx.append((s, ["template:" + name, "markers"]))
    rx = [x for j, x in enumerate(rx) if j % spec["of"] == spec["part"]]
    for i in range(0, len(rx), 6):
        c = rx[i:i + 6]
        yield pp.fixed_case([x[0] for x in c], [x[1] for x in c])


M.extra_enum["marker-templates"] = _marker_enum


def shards(tier):
    out = M.std_shards(tier, n_hyp=9, examples=100, heavy=False)
    for i in range(3):
        out.append({"name": "marker-templates:%d" % i, "kind": "marker-templates", "part": i, "of": 3, "weight": 30000})
    return out


run_shard, shrink_shard, replay = M.run_shard, M.shrink_shard, M.replay


def _lost(f):
    return f.get("detail", {}).get("lost", {})


def k02_h2o2_product_eaten(f):
    """The only molecule lost is hydrogen peroxide ('OO') on the product side, the input's product side lists the
    complete molecule 'OO' after another molecule (text '.OO' followed by '.' or the end), and the row was solved
    by an editing stage (rule-based, or mcs-based whose second rule-based pass runs the same rewrite)."""
    d = f.get("detail", {})
    if f.get("bucket") != "molecule-lost:products" or d.get("solved_by") not in ("rule-based", "mcs-based"):
        return False
    if set(_lost(f).keys()) != {"OO"}:
        return False
    sp = oracle.split_reaction(d.get("input", ""))
    # the input may spell the peroxide with maps / brackets ([OH:70]O): compare canonical molecules
    return sp is not None and any(oracle.canon(tok) == "OO" for tok in sp[1].split(".")[1:])


# K02 was repaired in /repo 8d1e21d: the predicate is kept for the record but no longer registered, so a
# return of the defect is reported as a violation.
KNOWN_PREDICATES = {}
