"""C16 — functional-group recognition depends only on the molecular graph; a positive pattern match corresponds
to a real occurrence (same elements and bond types) containing the anchor atom, and every occurrence is found."""
import functools

from hypothesis import strategies as st
from rdkit import Chem

from .. import gen, oracle
from ..runner import CaseResult, case_key, explore, shrink

ID = "C16"
LEVEL = "exploration"
RULE = ("Molecules (corpus, primitives with 3/4/5/7-membered and fused rings, Hypothesis-edited molecules) x every "
        "atom x every one of the 25 named groups and every distinct pattern / group / anti-pattern structure of the "
        "configuration. (1) renumbering invariance: is_functional_group(mol,g,i) == is_functional_group("
        "RenumberAtoms(mol,p),g,p(i)) for drawn permutations; (2) completeness: an RDKit substructure match of the "
        "pattern (atoms by element, bonds by exact type, built as SMARTS) containing the anchor => pattern_match true; "
        "(3) soundness: pattern_match true => such a match exists; (4) combinator: is_functional_group equals "
        "(exists pattern and its group part match) and no anti-pattern matches, recomputed from pattern_match. "
        "Non-trivial = (molecule, atom, group) with a positive answer or a negative answer caused by an anti-pattern; "
        "distinct = distinct (canonical molecule, atom rank, group).")
ASSUMPTIONS = [
    "RDKit's GetSubstructMatches on an explicit SMARTS ([#Z] atoms, -,=,#,: bonds) is the reference for 'real occurrence'",
    "molecules are RDKit molecules parsed from SMILES (aromaticity perceived), as in the pipeline",
    "known finding K16: the hand-written matcher walks the pattern as a tree; false positives are excused only when "
    "the ball of radius (pattern size - 1) around the anchor contains a ring atom, and counted",
]


def _fg():
    import synrbl.SynUtils.functional_group_utils as fg
    return fg


@functools.lru_cache(maxsize=None)
def structures():
    """distinct pattern / group / anti-pattern molecules of the configuration: list of (name, rdkit mol, smarts query)"""
    fg = _fg()
    out = []
    seen = set()
    for gname, cfg in fg.functional_group_config.items():
        for kind, mols in (("pattern", cfg.pattern), ("group", cfg.groups), ("anti", cfg.anti_pattern)):
            for m in mols:
                sm = to_smarts(m)
                if sm in seen:
                    continue
                seen.add(sm)
                out.append(("%s/%s/%s" % (gname, kind, Chem.MolToSmiles(m)), m, Chem.MolFromSmarts(sm), sm))
    return out


def to_smarts(m):
    """explicit SMARTS written by hand: atoms by atomic number only, bonds by exact type"""
    sym = {Chem.BondType.SINGLE: "-", Chem.BondType.DOUBLE: "=", Chem.BondType.TRIPLE: "#", Chem.BondType.AROMATIC: ":"}
    return _smarts_simple(Chem.RWMol(m), sym)


def _smarts_simple(q, sym):
    n = q.GetNumAtoms()
    order, parent, tree = [], {}, set()
    seen = set()

    def walk(i, p):
        seen.add(i)
        order.append(i)
        parent[i] = p
        for b in q.GetAtomWithIdx(i).GetBonds():
            j = b.GetOtherAtomIdx(i)
            if j not in seen:
                tree.add((min(i, j), max(i, j)))
                walk(j, i)
    walk(0, None)
    assert len(seen) == n, "disconnected pattern"
    closures = {}
    k = 0
    for b in q.GetBonds():
        i, j = b.GetBeginAtomIdx(), b.GetEndAtomIdx()
        if (min(i, j), max(i, j)) not in tree:
            k += 1
            closures.setdefault(i, []).append((k, sym[b.GetBondType()], True))
            closures.setdefault(j, []).append((k, sym[b.GetBondType()], False))

    def write(i):
        s = "[#%d]" % q.GetAtomWithIdx(i).GetAtomicNum()
        for num, bs, first in closures.get(i, []):
            s += bs + ("%d" % num if num < 10 else "%%%02d" % num)
        kids = [j for j in order if parent.get(j) == i]
        parts = [sym[q.GetBondBetweenAtoms(i, j).GetBondType()] + write(j) for j in kids]
        for p in parts[:-1]:
            s += "(" + p + ")"
        if parts:
            s += parts[-1]
        return s
    return write(0)


def reference_match(mol, anchor, query):
    for m in mol.GetSubstructMatches(query, uniquify=False, maxMatches=200000):
        if anchor in m:
            return True
    return False


def ball_has_ring(mol, anchor, radius):
    dist = {anchor: 0}
    frontier = [anchor]
    while frontier:
        nxt = []
        for i in frontier:
            if mol.GetAtomWithIdx(i).IsInRing():
                return True
            if dist[i] >= radius:
                continue
            for nb in mol.GetAtomWithIdx(i).GetNeighbors():
                j = nb.GetIdx()
                if j not in dist:
                    dist[j] = dist[i] + 1
                    nxt.append(j)
        frontier = nxt
    return False


def check_molecule(case):
    """case: {"smiles":..., "perm": [...] or None}. All atoms x all groups x all structures."""
    fg = _fg()
    res = CaseResult()
    mol = Chem.MolFromSmiles(case["smiles"])
    if mol is None or mol.GetNumAtoms() == 0:
        res.inconclusive = "unparsable"
        return res
    n = mol.GetNumAtoms()
    perm = case.get("perm")
    mol2 = None
    if perm is not None and len(perm) == n:
        mol2 = Chem.RenumberAtoms(mol, list(perm))
        newidx = {old: new for new, old in enumerate(perm)}
    ranks = list(Chem.CanonicalRankAtoms(mol, breakTies=True))
    canon = Chem.MolToSmiles(mol)
    n_eval = 0
    pm_cache = {}

    def pm(m, i, pat, key):
        k = (id(m), i, key)
        if k not in pm_cache:
            try:
                pm_cache[k] = bool(fg.pattern_match(m, i, pat)[0])
            except Exception as e:
                pm_cache[k] = e
        return pm_cache[k]
    structs = structures()
    for i in range(n):
        # clauses 2 + 3 on every structure
        for name, pmol, query, smarts in structs:
            got = pm(mol, i, pmol, smarts)
            n_eval += 1
            if isinstance(got, Exception):
                res.fail("pattern_match-raises:" + type(got).__name__, "no exception", smiles=case["smiles"], atom=i,
                         structure=name, error=str(got)[:200])
                continue
            ref = reference_match(mol, i, query)
            if ref and not got:
                res.fail("missed-occurrence", "every occurrence is found", smiles=case["smiles"], atom=i, structure=name)
            elif got and not ref:
                cyc = ball_has_ring(mol, i, pmol.GetNumAtoms() - 1)
                res.fail("false-positive:" + ("cyclic-neighbourhood" if cyc else "acyclic"), "positive match is real",
                         smiles=case["smiles"], atom=i, structure=name)
        if mol.GetAtomWithIdx(i).GetSymbol() in ("C", "H") and not case.get("all_atoms"):
            continue
        for gname, cfg in fg.functional_group_config.items():
            n_eval += 1
            try:
                got = bool(fg.is_functional_group(mol, gname, i))
            except Exception as e:
                res.fail("is_functional_group-raises:" + type(e).__name__, "no exception", smiles=case["smiles"], atom=i,
                         group=gname, error=str(e)[:200])
                continue
            # clause 4: combinator recomputed from pattern_match results
            pos = False
            for p_mol, g_mol in zip(cfg.pattern, cfg.groups):
                a = pm(mol, i, p_mol, to_smarts(p_mol))
                b = pm(mol, i, g_mol, to_smarts(g_mol))
                pos = pos or (a is True and b is True)
            anti = any(pm(mol, i, ap, to_smarts(ap)) is True for ap in cfg.anti_pattern)
            exp = pos and not anti
            if got != exp:
                res.fail("combinator", "group = pattern and group part and no anti-pattern", smiles=case["smiles"], atom=i,
                         group=gname, got=got, expected=exp, pattern_and_group=pos, anti=anti)
            if got or (pos and anti):
                res.nt_keys.append(case_key([canon, ranks[i], gname]))
                res.tag(("is:" if got else "anti-pattern-blocks:") + gname)
            # clause 1: renumbering invariance
            if mol2 is not None:
                try:
                    got2 = bool(fg.is_functional_group(mol2, gname, newidx[i]))
                except Exception as e:
                    res.fail("is_functional_group-raises:" + type(e).__name__, "no exception", smiles=case["smiles"],
                             atom=i, group=gname, perm=perm, error=str(e)[:200])
                    continue
                if got2 != got:
                    res.fail("renumbering-changes-answer", "renumbering invariance", smiles=case["smiles"], atom=i,
                             group=gname, perm=perm, original=got, renumbered=got2)
    res.evals = max(1, n_eval)
    if mol.GetRingInfo().NumRings():
        res.tag("has-ring")
    return res


@st.composite
def mol_case(draw, max_heavy=18):
    s = draw(st.one_of(gen.molecule(True, max_heavy, False), gen.edited_molecule(max_heavy=max_heavy),
                       st.sampled_from(gen.PRIMITIVES)))
    m = Chem.MolFromSmiles(s)
    n = m.GetNumAtoms() if m is not None else 0
    perm = list(draw(st.permutations(list(range(n))))) if n else None
    return {"smiles": s, "perm": perm}


RINGY = ["Cc1cccc(N)c(=O)c1", "Nc1cccccc1=O", "C1OCO1", "C1COCO1", "C1COC(O)O1", "O=C1OCCO1", "O=C1CCC(=O)O1", "C1CC2OC2C1",
         "OC1OCCCC1", "OC1(O)CC1", "N1C=CC=C1", "Oc1ccc[nH]1", "COc1ccc[nH]1", "O=C1NC(=O)c2ccccc12", "c1ccc2OCOc2c1",
         "O=C1OC(=O)C=C1", "C1CSC1", "O=C1CCS1", "N#CC1CC1", "O=NC1CC1", "ON1CCCC1", "[O-][N+](=O)C1CC1", "NC1=CC=CC=CC1",
         "O=c1cccc[nH]1", "Oc1ccccn1", "NC(=O)C1CC1", "O=C1CCCN1", "O=C1OCCN1", "CC1(C)OCC(CO)O1", "OC1C=CC=CC=C1"]


def shards(tier):
    q = tier == "quick"
    out = [{"name": "hyp:%d" % i, "kind": "hyp", "examples": 500 if q else 6000} for i in range(12)]
    for i in range(3):
        out.append({"name": "primitives+corpus:%d" % i, "kind": "enum", "part": i, "of": 3, "stride": 12 if q else 1})
    out.append({"name": "self-test-patterns", "kind": "patterns"})
    return out


def run_shard(spec, seed, tier, shard):
    k = spec["kind"]
    if k == "hyp":
        explore(shard, mol_case(), check_molecule, spec["examples"], seed)
    elif k == "enum":
        mols = list(gen.PRIMITIVES) + RINGY + [m for j, m in enumerate(gen.load_molecules(True, 25)[len(gen.PRIMITIVES):]) if j % spec["stride"] == 0]
        for i, s in enumerate(mols):
            if i % spec["of"] != spec["part"]:
                continue
            m = Chem.MolFromSmiles(s)
            n = m.GetNumAtoms()
            c = {"smiles": s, "perm": list(reversed(range(n)))}
            shard.add(c, check_molecule(c), i)
    elif k == "patterns":
        # every configured structure must match itself at every one of its atoms (sanity of reference + code)
        for i, (name, pmol, query, smarts) in enumerate(structures()):
            s = Chem.MolToSmiles(pmol)
            c = {"smiles": s, "perm": None, "all_atoms": True}
            shard.add(c, check_molecule(c), i)
        shard.exhaustive = True
        shard.extra["structures"] = len(structures())


def shrink_shard(spec, seed, tier, bucket, index, cap_s):
    if spec["kind"] == "hyp":
        return shrink(mol_case(), check_molecule, bucket, seed, index, spec["examples"], cap_s)
    return None


def replay(case, spec):
    return check_molecule(case).failures


def k16_tree_walk_false_positive(f):
    """pattern_match reports a pattern at an atom although no occurrence (same elements and bond types) contains it,
    and the ball of radius (pattern size - 1) around the atom contains a ring atom: the matcher walks the pattern as a
    tree (no cross-branch injectivity, ring-closure bonds unchecked)."""
    return f.get("bucket") == "false-positive:cyclic-neighbourhood"


KNOWN_PREDICATES = {"k16_tree_walk_false_positive": k16_tree_walk_false_positive}
