"""C04 — an already balanced reaction passes through unchanged as input-balanced; conversely a row is labelled
input-balanced only if its input was balanced and nothing was added."""
from hypothesis import strategies as st

from .. import gen, oracle, pipeprops as pp
from ..runner import case_key

ID = "C04"
LEVEL = "exploration"
RULE = ("Forward: the 4 094 curated reactions that the independent oracle finds balanced and closed-shell (enumerated "
        "in full in thorough, a drawn sample in quick) plus Hypothesis-built variants: reversal, k-fold multiples, union "
        "of two, added spectators on both sides (ions, Z>86 species, H2O2, H2), respelling with atom maps / kekule / "
        "explicit H, molecule permutation; and the fixed Z>86 list. Oracle: balanced(input) => row solved by "
        "'input-balanced', reaction == input_reaction, no molecule added or lost. Converse: C01's general generator "
        "(mostly unbalanced inputs): label input-balanced => oracle balanced(input) and nothing added. Non-trivial "
        "(forward) = balanced input with >=2 molecules on a side, or charged, Z>86 or mapped; (converse) = unbalanced "
        "input. Distinct = distinct input strings.")
ASSUMPTIONS = [
    "RDKit trusted for the oracle's composition and canonical SMILES",
    "closed-shell inputs only",
]


@st.composite
def balanced_variant(draw, max_heavy=40):
    pool = gen.load_reactions_capped("balanced", max_heavy, 6)
    rxn = draw(gen.indexed(pool))
    tags = ["balanced"]
    if draw(st.integers(0, 7)) == 0:
        rxn, tags = draw(gen.shared_reagent_union())   # a reactant written twice, products all different
    a, b = oracle.split_reaction(rxn)
    ra, rb = a.split("."), b.split(".")
    if draw(st.integers(0, 3)) == 0:
        ra, rb = rb, ra
        tags.append("reversed")
    k = draw(st.sampled_from([1, 1, 1, 2, 3]))
    if k > 1:
        ra, rb = ra * k, rb * k
        tags.append("multiple")
    if draw(st.integers(0, 4)) == 0:
        oa, ob = oracle.split_reaction(draw(gen.indexed(pool)))
        ra, rb = ra + oa.split("."), rb + ob.split(".")
        tags.append("union")
    if draw(st.integers(0, 2)) == 0:
        sp = draw(st.sampled_from(gen.SPECTATORS + gen.COUNTER_IONS + gen.MARKER_MOLS)).split(".")
        if all(oracle.closed_shell(x) for x in sp):
            pa, pb = draw(st.integers(0, len(ra))), draw(st.integers(0, len(rb)))
            ra = ra[:pa] + sp + ra[pa:]
            rb = rb[:pb] + sp + rb[pb:]
            tags.append("spectator")
    rxn = ".".join(ra) + ">>" + ".".join(rb)
    if draw(st.integers(0, 2)) == 0:
        new = draw(gen.respell_reaction(rxn))
        if new != rxn:
            rxn = new
            tags.append("respelled")
    return rxn, tags


def judge(case, rows, stats, res):
    direction = case.get("direction", "both")
    for i, (inp, row) in enumerate(zip(case["reactions"], rows)):
        if not pp.valid_input(inp):
            res.tag("malformed-sibling-row")
            continue
        pp.c04_row(res, i, inp, row, direction)
        b = oracle.balanced(inp)
        res.tag("input-oracle-balanced" if b else "input-oracle-unbalanced")
        if row.get("solved_by") == "input-balanced":
            res.tag("labelled-input-balanced")
        sp = oracle.split_reaction(inp)
        if b:
            multi = max(len(sp[0].split(".")), len(sp[1].split("."))) >= 2
            charged = "+" in inp or "-]" in inp
            heavy = any(c in pp.row_classes(inp, row) for c in ("Z>86-input",))
            mapped = oracle.has_atom_map(inp)
            for name, flag in (("multi-molecule", multi), ("charged", charged), ("Z>86", heavy), ("mapped", mapped)):
                if flag:
                    res.tag("balanced:" + name)
            if multi or charged or heavy or mapped:
                res.nt_keys.append(case_key(inp))
        elif direction != "forward":
            res.nt_keys.append(case_key(inp))


def _rx(spec):
    if spec.get("domain") == "balanced":
        return balanced_variant(spec.get("max_heavy", 40)).filter(lambda t: oracle.balanced(t[0]) is True)
    base = pp.closed_shell_rx(gen.any_reaction(max_heavy=30, max_mols=4, weights=(4, 5, 2, 3)))
    return gen.maybe_respelled(base, 4)


M = pp.PipelineModule(judge, rx_strategy=_rx, thresholds_strategy=pp.thresholds(), max_rx=8)


def _curated(spec):
    rx = [r for j, r in enumerate(gen.load_reactions("balanced")) if j % spec["of"] == spec["part"]]
    for i in range(0, len(rx), 40):
        yield dict(pp.fixed_case(rx[i:i + 40], [["curated"]] * len(rx[i:i + 40])), direction="both")


def _heavy(spec):
    for r, bal in gen.HEAVY_REACTIONS:
        assert oracle.balanced(r) == bal, r
        yield pp.fixed_case([r], [["heavy"]])
    yield pp.fixed_case([r for r, _ in gen.HEAVY_REACTIONS], [["heavy"]] * len(gen.HEAVY_REACTIONS), batch_size=3)


M.extra_enum["curated"] = _curated
M.extra_enum["heavy-list"] = _heavy


def shards(tier):
    q = tier == "quick"
    out = []
    for i in range(8 if q else 10):
        out.append({"name": "hyp-balanced:%d" % i, "kind": "hyp", "domain": "balanced", "examples": 150 if q else 2000})
    for i in range(4 if q else 6):
        out.append({"name": "hyp-converse:%d" % i, "kind": "hyp", "domain": "general", "examples": 100 if q else 1500})
    out.append({"name": "heavy-list", "kind": "heavy-list"})
    n = 4
    for i in range(n):
        # quick: one quarter of each part (1/4 of the curated set in total); thorough: everything
        out.append({"name": "curated:%d" % i, "kind": "curated", "part": i, "of": n * (4 if q else 1), "weight": 10 ** 5})
    return out


run_shard, shrink_shard, replay = M.run_shard, M.shrink_shard, M.replay
KNOWN_PREDICATES = {}
