"""C18 — run statistics agree with the returned rows."""
from hypothesis import strategies as st

from .. import gen, oracle, pipeprops as pp
from ..runner import case_key

ID = "C18"
LEVEL = "exploration"
RULE = ("Batches of 2-10 reactions from C01's generator, 1/5 of the batches with malformed rows mixed in, x batch "
        "size 1..n+1/None x threshold (incl. high thresholds that demote MCS rows); stats returned through the stats "
        "argument are compared with counts recomputed from the returned rows: reaction_cnt == #inputs; balanced_cnt "
        "== #rows labelled input-balanced; confident_cnt == #rows solved by mcs-based; mcs_applied == #rows neither "
        "input-balanced nor rule-based nor declined as malformed; rb_solved <= rb_applied; mcs_solved <= mcs_applied; "
        "rb_solved >= #rule-based rows; mcs_solved >= #mcs-based rows. Two shards re-run each batch at thresholds equal to / one ulp above / 0.0004 around the confidences it produced. One shard drives the CLI (cmd_run.impute in-process) "
        "and reads <out>.stats. Non-trivial = run split into >=2 batches with >=2 outcome classes; distinct = distinct "
        "(inputs, batch size, threshold).")
ASSUMPTIONS = [
    "'rows not solved before the MCS stage' is computed from the final rows as: not input-balanced, not rule-based, "
    "not declined as malformed input",
    "absent statistics keys count as 0",
]


@st.composite
def _mixed(draw, base):
    if draw(st.integers(0, 4)) == 0:
        kind, val = draw(st.sampled_from([m for m in gen.MALFORMED if m[0] not in ("missing", "missing_nan")]))
        return val, ["malformed:" + kind]
    return draw(base)


def _rx(spec):
    if spec.get("boundary"):
        return st.one_of(gen.mcs_prone_reaction(25, 4), gen.mcs_prone_reaction(25, 4),
                         pp.closed_shell_rx(gen.any_reaction(max_heavy=25, max_mols=4, weights=(5, 4, 2, 1))))
    base = pp.closed_shell_rx(gen.any_reaction(max_heavy=30, max_mols=4, weights=(5, 4, 2, 1)))
    if spec.get("malformed"):
        return _mixed(base)
    return base


def judge(case, rows, stats, res):
    pp.c18_stats(res, case, rows, stats)
    n = len(case["reactions"])
    bs = case.get("batch_size")
    nb = 1 if bs is None else (n + bs - 1) // bs
    classes = {("solved:" + str(r.get("solved_by"))) if r.get("solved") else "declined" for r in rows}
    res.tag("batches:%s" % ("1" if nb == 1 else "2+"), *sorted(classes))
    if any(r.get("solved_by") == "mcs-based" and not r.get("solved") for r in rows):
        res.tag("mcs-demoted-by-threshold")
    res.nontrivial = nb >= 2 and len(classes) >= 2
    res.evals = 1


M = pp.PipelineModule(judge, rx_strategy=_rx, thresholds_strategy=st.one_of(pp.thresholds(), st.sampled_from([0.9, 0.99, 1.0])),
                      min_rx=2, max_rx=10)


def check_cli(case, spec=None):
    """Runs cmd_run.impute on a CSV and checks <out>.stats against the written rows."""
    import csv, json, os, shutil, tempfile, math
    import pandas as pd
    from ..runner import CaseResult
    res = CaseResult()
    d = tempfile.mkdtemp(prefix="synverif-c18-", dir="/var/tmp")
    try:
        src, out = os.path.join(d, "in.csv"), os.path.join(d, "out.csv")
        with open(src, "w", newline="") as f:
            w = csv.writer(f)
            w.writerow(["reaction", "tag"])
            for i, r in enumerate(case["reactions"]):
                w.writerow([r, "t%d" % i])
        from synrbl.SynCmd import cmd_run
        try:
            cmd_run.impute(src, out, "reaction", ["tag"], case.get("threshold", 0), n_jobs=1,
                           batch_size=case.get("batch_size"))
        except Exception as e:
            if isinstance(e, (ValueError, KeyError, TypeError)) and not pp.valid_input(case["reactions"][0]) \
                    and not os.path.exists(out):
                # the CLI validates the first row and refuses the file cleanly (accepted, see C05)
                res.tag("cli-first-row-rejected")
                return res
            res.fail("cli-raises:" + type(e).__name__, "cli", error=str(e)[:300], reactions=case["reactions"],
                     batch_size=case.get("batch_size"))
            return res
        stats = json.load(open(out + ".stats"))
        rows = pd.read_csv(out).to_dict("records")
        if len(rows) != len(case["reactions"]):
            res.inconclusive = "row count (judged by C05)"
            return res
        rows = [{k: (None if isinstance(v, float) and math.isnan(v) else v) for k, v in r.items()} for r in rows]
        judge(case, rows, stats, res)
        res.tag("cli")
    finally:
        shutil.rmtree(d, ignore_errors=True)
    return res


def check_boundary(case, spec=None):
    """statistics at thresholds equal to the confidences the batch itself produced (and one ulp / 0.0005 around them):
    the counter and the rows must be decided by the same comparison"""
    import math
    from ..runner import CaseResult
    res = CaseResult()
    rows, stats, err = pp.execute(dict(case, threshold=0))
    if err or len(rows) != len(case["reactions"]) or pp.has_unplanned_timeout(rows):
        res.inconclusive = "baseline run"
        return res
    confs = sorted({r["confidence"] for r in rows if r.get("solved_by") == "mcs-based" and isinstance(r.get("confidence"), float)})
    n = 0
    for c in confs[:4]:
        for t in (c, math.nextafter(c, 2.0), c - 0.0004, c + 0.0004, round(c, 3)):
            if not 0 <= t <= 1:
                continue
            c2 = dict(case, threshold=t)
            rows2, stats2, err2 = pp.execute(c2)
            if err2 or len(rows2) != len(case["reactions"]) or pp.has_unplanned_timeout(rows2):
                res.inconclusive = "timeout text"
                return res
            judge(c2, rows2, stats2, res)
            n += 1
            res.nt_keys.append(case_key([case["reactions"], case.get("batch_size"), t]))
    res.nontrivial = False
    res.evals = max(1, n)
    res.tag("boundary-thresholds:%d" % min(n, 9))
    return res


def shards(tier):
    q = tier == "quick"
    out = []
    for i in range(8 if q else 10):
        out.append({"name": "hyp:%d" % i, "kind": "hyp", "examples": 70 if q else 800})
    for i in range(3 if q else 4):
        out.append({"name": "hyp-malformed:%d" % i, "kind": "hyp", "malformed": True, "examples": 70 if q else 800})
    for i in range(2):
        out.append({"name": "hyp-cli:%d" % i, "kind": "hyp", "cli": True, "examples": 40 if q else 400})
    for i in range(2):
        out.append({"name": "hyp-boundary:%d" % i, "kind": "hyp", "boundary": True, "examples": 25 if q else 300,
                    "weights": (8, 1, 0, 0), "max_rx": 5})
    out.append({"name": "hyp-njobs", "kind": "hyp", "n_jobs": (2, 3, 4, 16), "examples": 25 if q else 200, "procs": 4, "min_rx": 4, "max_rx": 12})
    if not q:
        for i in range(4):
            out.append({"name": "corpus:%d" % i, "kind": "corpus", "part": i, "of": 4, "batch_size": 7, "weight": 10 ** 6})
    return out


def _check(spec):
    if spec.get("boundary"):
        return lambda c: check_boundary(c, spec)
    return (lambda c: check_cli(c, spec)) if spec.get("cli") else (lambda c: M.check_case(c, spec))


def run_shard(spec, seed, tier, shard):
    from ..runner import explore
    if spec["kind"] == "hyp":
        explore(shard, M.strategy(spec), _check(spec), spec["examples"], seed)
    else:
        M.run_shard(spec, seed, tier, shard)


def shrink_shard(spec, seed, tier, bucket, index, cap_s):
    from ..runner import shrink
    if spec["kind"] != "hyp":
        return None
    return shrink(M.strategy(spec), _check(spec), bucket, seed, index, spec["examples"], cap_s)


def replay(case, spec):
    return _check(spec)(case).failures


KNOWN_PREDICATES = {}
