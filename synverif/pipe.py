"""Thin wrapper around the code under test (synrbl.Balancer) used by pipeline properties."""
import functools
import math

_BAL = {}


def balancer(n_jobs=1, threshold=0, reaction_col="reaction", id_col="id", **kw):
    from synrbl import Balancer
    key = (n_jobs, reaction_col, id_col, tuple(sorted(kw.items())))
    b = _BAL.get(key)
    if b is None:
        b = Balancer(n_jobs=n_jobs, reaction_col=reaction_col, id_col=id_col, **kw)
        _BAL[key] = b
    b.confidence_threshold = threshold
    return b


def run(reactions, batch_size=None, n_jobs=1, threshold=0, reaction_col="reaction", want_stats=True, cache_dir=None, **kw):
    """-> (rows, stats). rows is the list of output dictionaries of rebalance().
    cache_dir: run with caching enabled on that directory (public attributes cache / cache_dir of the Balancer)."""
    b = balancer(n_jobs=n_jobs, threshold=threshold, reaction_col=reaction_col, **kw)
    stats = {} if want_stats else None
    b.cache, b.cache_dir = (cache_dir is not None), cache_dir
    try:
        rows = b.rebalance(list(reactions), output_dict=True, stats=stats, batch_size=batch_size)
    finally:
        b.cache, b.cache_dir = False, None
    return rows, stats


def isnull(v):
    return v is None or v == "" or (isinstance(v, float) and math.isnan(v))


def row_key(row, reaction_col="reaction"):
    """(reaction, solved, solved_by, confidence, rules, issue) with absent == None == NaN == ''."""
    def g(k):
        v = row.get(k)
        return None if isnull(v) else v
    rules = g("rules")
    if rules is not None:
        rules = tuple(rules)
    conf = g("confidence")
    return (row.get(reaction_col), bool(row.get("solved")), g("solved_by"), conf, rules, g("issue"))


def is_timeout_issue(row):
    v = row.get("issue")
    return isinstance(v, str) and ("timeout" in v.lower() or "timed out" in v.lower() or "time limit" in v.lower())
