import argparse
import os
import sys
import traceback


def main():
    ap = argparse.ArgumentParser()
    ap.add_argument("property")
    ap.add_argument("--tier", default=os.environ.get("VERIF_TIER") or "quick", choices=["quick", "thorough"])
    ap.add_argument("--replay", default=None)
    ap.add_argument("--shards", default=None, help="comma separated shard-name prefixes (debugging)")
    args = ap.parse_args()
    try:
        seed = int(os.environ.get("VERIF_SEED") or "1")
    except ValueError:
        seed = 1
    seed = abs(seed) % (2 ** 31)
    prop = args.property.upper()
    try:
        from synverif import runner
        try:
            import hypothesis  # noqa: F401
        except ImportError:
            print("HARNESS-ERROR hypothesis is not importable in /venv (run MANIFEST.setup_cmd)")
            return 2
        if args.replay:
            return runner.replay_file(prop, args.replay)
        only = args.shards.split(",") if args.shards else None
        return runner.run_property(prop, args.tier, seed, only_shards=only)
    except SystemExit:
        raise
    except BaseException:
        traceback.print_exc()
        print("HARNESS-ERROR property=%s (exception in the harness; see stderr)" % prop)
        return 2


if __name__ == "__main__":
    sys.exit(main())
