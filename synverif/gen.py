"""Generators (Hypothesis strategies). Every random choice is a Hypothesis draw.

Soundness rule: whatever leaves this module as a "valid molecule" parses in RDKit
and (where closed_shell=True) has no radical electrons and no dummy atoms.
"""
import functools
import os

from hypothesis import strategies as st
from rdkit import Chem

from . import oracle

SEEDS = os.path.join(os.path.dirname(os.path.dirname(os.path.abspath(__file__))), "seeds")

# small hand-picked primitives placed in front of the corpus so shrinking has
# somewhere small to go and so unusual ring sizes / hetero atoms are reachable.
PRIMITIVES = [
    "C", "O", "N", "CC", "CO", "CN", "C=O", "CCO", "CC=O", "CC(=O)O", "CC(C)=O", "CCN",
    "C=C", "C#C", "C#N", "CC#N", "OO", "[H][H]", "Cl", "Br", "I", "F", "S", "CS", "CSC",
    "C1CC1", "C1CCC1", "C1CO1", "C1CN1", "C1COC1", "C1OCO1", "C1CCCC1", "C1CCCCC1", "C1CCOC1",
    "c1ccccc1", "c1ccncc1", "c1cc[nH]c1", "c1ccoc1", "c1ccsc1", "c1cnc[nH]1", "c1cocn1",
    "O=c1cccccc1", "c1ccc2ccccc2c1", "c1ccc2[nH]ccc2c1", "Oc1ccccc1", "Nc1ccccc1",
    "CC(=O)OC", "CC(=O)N", "CC(=O)Cl", "CC(=O)OC(C)=O", "COC(=O)OC", "NC(N)=O", "CC(=O)SC",
    "C[N+](=O)[O-]", "CN=O", "CNO", "CC(O)O", "CC(O)OC", "COC(C)OC", "C=CO", "CC(O)=C",
    "CS(C)=O", "CS(C)(=O)=O", "CS(=O)(=O)O", "CS(=O)(=O)Cl", "COP(=O)(OC)OC", "CP(C)C",
    "CP(C)(C)=O", "OB(O)c1ccccc1", "C[Si](C)(C)C", "C[Si](C)(C)O", "C[Mg]Br", "C[Zn]Cl",
    "CC(=O)[O-]", "C[NH3+]", "C[N+](C)(C)C", "[NH4+]", "[OH-]", "[Na+]", "[K+]", "[Cl-]",
    "[Br-]", "[Li+]", "[H+]", "[NH3+]CC(=O)[O-]", "C[O-]", "C=C[O-]", "CC(=O)OO", "COO",
    "O=C=O", "N#N", "[C-]#[O+]", "C[N+]#[C-]", "CN=[N+]=[N-]", "O=S=O", "OS(=O)(=O)O",
    "O=[N+]([O-])O", "OP(=O)(O)O", "ClCl", "BrBr", "II", "FF", "ClBr", "ClI", "BrI",
    # hydrogens that are real graph atoms (isotope labels): atom counts != heavy-atom counts
    "[2H]O[2H]", "[2H]C([2H])([2H])O", "[2H]c1ccccc1", "[2H]OC", "[3H]CC", "[2H]C(=O)c1ccccc1", "[2H][2H]", "[2H]Cl",
    "[2H]C([2H])([2H])C(=O)OCC", "[2H]N([2H])C", "CC([2H])(O)C", "[2H]c1ccc(C(=O)OCC)cc1",
]

# substituent blocks; atom 0 is the attachment atom
BLOCKS = [
    "C", "CC", "C(C)C", "C=C", "C#C", "c1ccccc1", "O", "OC", "OC(C)=O", "N", "NC", "N(C)C",
    "[N+](=O)[O-]", "N=O", "F", "Cl", "Br", "I", "C(=O)O", "C(=O)OC", "C(=O)N", "C(=O)NC",
    "C(=O)Cl", "C(C)=O", "C=O", "C#N", "S", "SC", "S(C)(=O)=O", "S(=O)(=O)O", "S(=O)(=O)Cl",
    "S(=O)(=O)N", "P(=O)(OC)OC", "P(C)C", "B(O)O", "[Si](C)(C)C", "O[Si](C)(C)C", "[Mg]Br",
    "[Zn]Cl", "C(O)=C", "C(O)(O)C", "C(O)(OC)C", "C(O)(O)O", "C(=O)[O-]", "[N+](C)(C)C",
    "[NH3+]", "[O-]", "OO", "OOC", "C(=O)OO", "C(F)(F)F", "OC(=O)OC", "NC(N)=O", "NO",
    "C(=O)SC", "SS C".replace(" ", ""), "N=[N+]=[N-]", "OC1CCCCO1", "C1CO1", "O[Na]", "OC=C", "[2H]", "[2H]", "[3H]",
]

COUNTER_IONS = ["[Na+]", "[K+]", "[Li+]", "[Cl-]", "[Br-]", "[I-]", "[OH-]", "[H+]", "[NH4+]",
                "[Cs+]", "[Mg+2]", "[Ca+2]", "[F-]", "[Cu+]", "[Ag+]", "[Zn+2]"]

SPECTATORS = ["O", "OO", "[H][H]", "[Na+].[Cl-]", "[U]", "[Th]", "[Pu+3].[Cl-].[Cl-].[Cl-]",
              "[Ra+2].[Cl-].[Cl-]", "O=[U+2]=O", "[Rn]", "[Xe]", "[Pb]", "[Hg]", "Cl", "N",
              "CC(=O)O", "c1ccncc1", "CO", "ClCCl", "[Pd]", "[Fr+]", "[Og]", "[Lr+3]"]


@functools.lru_cache(maxsize=None)
def load_molecules(closed_shell_only=True, max_heavy=None):
    out = list(PRIMITIVES)
    seen = set(out)
    with open(os.path.join(SEEDS, "molecules.tsv")) as f:
        for line in f:
            s, n, cs = line.rstrip("\n").split("\t")
            if closed_shell_only and cs != "1":
                continue
            if max_heavy is not None and int(n) > max_heavy:
                continue
            if s not in seen:
                seen.add(s)
                out.append(s)
    return tuple(out)


@functools.lru_cache(maxsize=None)
def load_reactions(kind):
    """kind: 'input' (5 032 unbalanced, atom-mapped corpus reactions) or
    'balanced' (curated, oracle-balanced, closed-shell, unmapped canonical)."""
    name = {"input": "reactions_input.txt", "balanced": "reactions_balanced.txt"}[kind]
    with open(os.path.join(SEEDS, name)) as f:
        return tuple(l.rstrip("\n") for l in f if l.strip())


def reaction_size(rxn):
    """(max heavy atoms of a molecule, max molecules per side)."""
    sp = oracle.split_reaction(rxn)
    mx, nm = 0, 0
    for side in sp:
        parts = [p for p in side.split(".") if p]
        nm = max(nm, len(parts))
        for p in parts:
            mx = max(mx, oracle.heavy_atoms(p) or 0)
    return mx, nm


def _capped_all(kind, max_heavy=30, max_mols=4):
    return tuple(r for r in load_reactions(kind)
                 if (lambda s: s[0] <= max_heavy and s[1] <= max_mols)(reaction_size(r)))


@functools.lru_cache(maxsize=None)
def slow_mcs():
    """corpus reactions whose MCS stage was measured slower than 0.30 s (seeds/measure_slow_mcs.py)"""
    path = os.path.join(SEEDS, "slow_mcs.txt")
    if not os.path.exists(path):
        return frozenset()
    with open(path) as f:
        return frozenset(l.rstrip("\n") for l in f if l.strip())


@functools.lru_cache(maxsize=None)
def load_reactions_capped(kind, max_heavy=30, max_mols=4):
    """size-capped pool; for the 'input' corpus also without the reactions whose substructure search is slow enough
    to come near the code's wall-clock limits (they stay in the full-corpus shards of the single-execution checks)"""
    slow = slow_mcs() if kind == "input" else frozenset()
    return tuple(r for r in _capped_all(kind, max_heavy, max_mols) if r not in slow)


def indexed(seq):
    """Strategy over a size-sorted tuple that shrinks towards its first elements."""
    return st.integers(0, len(seq) - 1).map(lambda i: seq[i])


# ------------------------------------------------------------------ molecules

def _attach(mol, idx, block):
    b = Chem.MolFromSmiles(block)
    n = mol.GetNumAtoms()
    rw = Chem.RWMol(Chem.CombineMols(mol, b))
    for i in (idx, n):
        a = rw.GetAtomWithIdx(i)
        if a.GetNumExplicitHs() > 0:
            a.SetNumExplicitHs(a.GetNumExplicitHs() - 1)
    rw.AddBond(idx, n, Chem.BondType.SINGLE)
    m = rw.GetMol()
    Chem.SanitizeMol(m)
    return m


def _swap_element(mol, idx, z):
    rw = Chem.RWMol(mol)
    a = rw.GetAtomWithIdx(idx)
    a.SetAtomicNum(z)
    a.SetIsAromatic(a.GetIsAromatic() and z in (6, 7, 8, 15, 16))
    m = rw.GetMol()
    Chem.SanitizeMol(m)
    return m


def _charge(mol, idx, delta):
    """(de)protonate: change formal charge by delta and hydrogens by delta."""
    rw = Chem.RWMol(mol)
    a = rw.GetAtomWithIdx(idx)
    h = a.GetTotalNumHs()
    if delta < 0 and h == 0:
        raise ValueError("no H to remove")
    a.SetFormalCharge(a.GetFormalCharge() + delta)
    a.SetNoImplicit(True)
    a.SetNumExplicitHs(h + delta)
    m = rw.GetMol()
    Chem.SanitizeMol(m)
    return m


def _isotope(mol, idx, iso):
    rw = Chem.RWMol(mol)
    rw.GetAtomWithIdx(idx).SetIsotope(iso)
    m = rw.GetMol()
    Chem.SanitizeMol(m)
    return m


ISOTOPES = {1: [2, 3], 6: [13, 14], 7: [15], 8: [17, 18], 9: [18], 15: [32], 16: [34, 35],
            17: [35, 37], 35: [79, 81], 53: [123, 125, 131]}


@st.composite
def edited_molecule(draw, base=None, max_edits=3, closed_shell=True, max_heavy=None):
    """Seed molecule + a short list of structural edits (construction, not rejection:
    an edit that does not sanitise is skipped and counted, never retried blindly)."""
    mols = load_molecules(True, max_heavy)
    smi = draw(base) if base is not None else draw(indexed(mols))
    mol = Chem.MolFromSmiles(smi)
    n_edits = draw(st.integers(0, max_edits))
    for _ in range(n_edits):
        kind = draw(st.sampled_from(["attach", "attach", "attach", "swap", "charge", "isotope"]))
        natoms = mol.GetNumAtoms()
        if natoms == 0:
            break
        idx = draw(st.integers(0, natoms - 1))
        try:
            if kind == "attach":
                cands = [a.GetIdx() for a in mol.GetAtoms() if a.GetTotalNumHs() > 0]
                if not cands:
                    continue
                idx = cands[idx % len(cands)]
                new = _attach(mol, idx, draw(st.sampled_from(BLOCKS)))
            elif kind == "swap":
                z = draw(st.sampled_from([5, 6, 7, 8, 9, 14, 15, 16, 17, 34, 35, 53]))
                new = _swap_element(mol, idx, z)
            elif kind == "charge":
                new = _charge(mol, idx, draw(st.sampled_from([-1, 1])))
            else:
                z = mol.GetAtomWithIdx(idx).GetAtomicNum()
                if z not in ISOTOPES:
                    continue
                new = _isotope(mol, idx, draw(st.sampled_from(ISOTOPES[z])))
            out = Chem.MolToSmiles(new)
            chk = Chem.MolFromSmiles(out)
            if chk is None:
                continue
            if closed_shell and not oracle.closed_shell(out):
                continue
            if max_heavy is not None and chk.GetNumHeavyAtoms() > max_heavy:
                continue
            mol = chk
        except Exception:
            continue
    return Chem.MolToSmiles(mol)


@functools.lru_cache(maxsize=None)
def periodic_species():
    """[X], [X+], [X-], [XH2], [nX] for every Z in 1..118 that RDKit accepts."""
    pt = Chem.GetPeriodicTable()
    out = []
    for z in range(1, 119):
        sym = pt.GetElementSymbol(z)
        iso = int(round(pt.GetMostCommonIsotopeMass(z))) or z * 2
        for tmpl in ("[%s]", "[%s+]", "[%s-]", "[%sH2]", "[%s+2]", "[%sH4]"):
            s = tmpl % sym
            if Chem.MolFromSmiles(s) is not None:
                out.append(s)
        s = "[%d%s]" % (iso + 1, sym)
        if Chem.MolFromSmiles(s) is not None:
            out.append(s)
    return tuple(out)


HYPERVALENT_H = ["[SH4]", "C[SH2]C", "[PH5]", "C[PH4]", "C[IH2]", "[SH6]", "C[PH2](C)C", "C[SH3]", "C[PH](C)(C)C",
                 "[IH3]", "C[SH4]C", "O=[SH2]", "[IH5]", "F[SH](F)(F)(F)F", "c1ccccc1[SH2]C", "CC[PH3]C"]


def hypervalent_h(smiles):
    """True if some neutral B/C/N/O/P/S/halogen atom carries explicit H in a valence above the element's default
    (known finding K15: such atoms lose hydrogens when remove_atom_mapping un-brackets them). General generators
    exclude these by construction; C15 generates them on purpose."""
    m = oracle.parse(smiles)
    if m is None:
        return False
    pt = Chem.GetPeriodicTable()
    for a in m.GetAtoms():
        if a.GetSymbol() in ("B", "C", "N", "O", "P", "S", "F", "Cl", "Br", "I") and a.GetFormalCharge() == 0 \
                and a.GetTotalNumHs() > 0 and a.GetTotalValence() > pt.GetDefaultValence(a.GetAtomicNum()):
            return True
    return False


@functools.lru_cache(maxsize=None)
def periodic_closed_shell(exclude_hypervalent=True):
    return tuple(s for s in periodic_species() if oracle.closed_shell(s)
                 and not (exclude_hypervalent and hypervalent_h(s)))


def molecule(closed_shell=True, max_heavy=None, periodic=True):
    """General molecule strategy: seeds, edited seeds, periodic sweep species."""
    mols = load_molecules(True, max_heavy)
    parts = [indexed(mols), edited_molecule(closed_shell=closed_shell, max_heavy=max_heavy)]
    if periodic:
        parts.append(st.sampled_from((periodic_closed_shell() + periodic_covalent()) if closed_shell else periodic_species()))
    return st.one_of(*parts)


# ----------------------------------------------------------------- respelling

@st.composite
def respell(draw, smiles, maps=True, allow_kekule=True, allow_explicit=True):
    """Equivalent spelling of one molecule: drawn atom order, optional kekulé form,
    explicit bonds, explicit H, optional drawn atom-map numbers. Closed over RDKit
    writers only; the result is re-parsed and must be the same molecule
    (otherwise the canonical spelling is returned: counted by callers as 'plain')."""
    mol = Chem.MolFromSmiles(smiles)
    if mol is None or mol.GetNumAtoms() == 0:
        return smiles
    n = mol.GetNumAtoms()
    perm = draw(st.permutations(list(range(n)))) if n <= 40 else list(range(n))
    m2 = Chem.RenumberAtoms(mol, list(perm))
    if maps and draw(st.booleans()):
        style = draw(st.sampled_from(["all", "some", "big", "zero"]))
        for a in m2.GetAtoms():
            if style == "all" or draw(st.booleans()):
                hi = {"all": 99, "some": 99, "big": 999, "zero": 9}[style]
                a.SetAtomMapNum(draw(st.integers(1, hi)))
    kek = allow_kekule and draw(st.booleans())
    expl_b = allow_explicit and draw(st.integers(0, 3)) == 0
    expl_h = allow_explicit and draw(st.integers(0, 3)) == 0
    try:
        if kek:
            Chem.Kekulize(m2, clearAromaticFlags=True)
        out = Chem.MolToSmiles(m2, canonical=False, kekuleSmiles=kek,
                               allBondsExplicit=expl_b, allHsExplicit=expl_h)
    except Exception:
        return smiles
    chk = Chem.MolFromSmiles(out)
    if chk is None or oracle.canon(out) != oracle.canon(smiles):
        return smiles
    return out


@st.composite
def respell_side(draw, side, **kw):
    if side == "":
        return side
    parts = side.split(".")
    parts = [draw(respell(p, **kw)) for p in parts]
    if len(parts) > 1:
        parts = draw(st.permutations(parts))
    return ".".join(parts)


@st.composite
def respell_reaction(draw, rxn, **kw):
    a, b = oracle.split_reaction(rxn)
    return draw(respell_side(a, **kw)) + ">>" + draw(respell_side(b, **kw))


# ------------------------------------------------------------------ reactions

def _join(parts):
    return ".".join(p for p in parts if p)


@st.composite
def mutated_balanced_reaction(draw, max_heavy=30, max_mols=4, spectators=True):
    """Curated balanced reaction with 0-2 molecules dropped / duplicated / reversed /
    united with another / spectators added. Returns (reaction, tags)."""
    pool = load_reactions_capped("balanced", max_heavy, max_mols)
    rxn = draw(indexed(pool))
    tags = []
    a, b = oracle.split_reaction(rxn)
    ra, rb = a.split("."), b.split(".")
    if draw(st.integers(0, 4)) == 0:
        ra, rb = rb, ra
        tags.append("reversed")
    if draw(st.integers(0, 5)) == 0:
        other = draw(indexed(pool))
        oa, ob = oracle.split_reaction(other)
        ra, rb = ra + oa.split("."), rb + ob.split(".")
        tags.append("union")
    k = draw(st.integers(0, 2))
    for _ in range(k):
        side = draw(st.sampled_from(["r", "p", "p"]))
        lst = ra if side == "r" else rb
        if len(lst) > 1:
            lst.pop(draw(st.integers(0, len(lst) - 1)))
            tags.append("drop_" + side)
    if draw(st.integers(0, 7)) == 0:
        lst = ra if draw(st.booleans()) else rb
        lst.append(lst[draw(st.integers(0, len(lst) - 1))])
        tags.append("dup")
    if spectators and draw(st.integers(0, 3)) == 0:
        sp = draw(st.sampled_from(SPECTATORS + COUNTER_IONS))
        where = draw(st.sampled_from(["both", "both", "r", "p"]))
        if where in ("both", "r"):
            ra = ra + sp.split(".")
        if where in ("both", "p"):
            rb = rb + sp.split(".")
        tags.append("spectator_" + where)
    return _join(ra) + ">>" + _join(rb), tags


TEMPLATES = [
    # (name, reactant pattern with {R}, product pattern with {R}); R attaches through carbon
    ("ester_hydrolysis", "{R}C(=O)OC.O", "{R}C(=O)O.CO"),
    ("ester_hydrolysis_missing", "{R}C(=O)OC", "{R}C(=O)O"),
    ("amide_formation", "{R}C(=O)Cl.N", "{R}C(N)=O"),
    ("sn2", "{R}CBr.[OH-]", "{R}CO"),
    ("salt", "{R}C(=O)O.[Na+].[OH-]", "{R}C(=O)[O-].[Na+]"),
    ("ketone_red", "{R}C(C)=O", "{R}C(C)O"),
    ("aldehyde_red", "{R}C=O", "{R}CO"),
    ("alkene_red", "{R}C=C", "{R}CC"),
    ("nitrile_red", "{R}C#N", "{R}CN"),
    ("nitro_red", "{R}C[N+](=O)[O-]", "{R}CN"),
    ("acid_red", "{R}C(=O)O", "{R}CO"),
    ("ester_red", "{R}C(=O)OC", "{R}CO"),
    ("alcohol_ox1", "{R}CO", "{R}C=O"),
    ("alcohol_ox2", "{R}C(C)O", "{R}C(C)=O"),
    ("alcohol_acid", "{R}CO", "{R}C(=O)O"),
    ("alcohol_acid_w", "{R}CO.O", "{R}C(=O)O"),
    ("alcohol_acid_p", "{R}CO.OO", "{R}C(=O)O"),
    ("aldehyde_acid", "{R}C=O", "{R}C(=O)O"),
    ("sulfide_ox", "{R}CSC", "{R}CS(C)=O"),
    ("epox", "{R}C=C", "{R}C1CO1"),
    ("acetal_hydrolysis", "{R}C(OC)OC", "{R}C=O"),
    ("boc", "{R}CNC(=O)OC(C)(C)C", "{R}CN"),
    ("tms", "{R}CO[Si](C)(C)C", "{R}CO"),
    ("tosyl", "{R}CO.Cc1ccc(S(=O)(=O)Cl)cc1", "{R}COS(=O)(=O)c1ccc(C)cc1"),
    ("wittig_like", "{R}C=O.C=P(c1ccccc1)(c1ccccc1)c1ccccc1", "{R}C=C"),
    ("grignard", "{R}C=O.C[Mg]Br", "{R}C(C)O"),
    ("dehalo", "{R}CCl", "{R}C"),
    ("halogenation", "{R}C", "{R}CCl"),
    ("peroxide", "{R}C(=O)O.OO", "{R}C(=O)OO"),
    ("ionic_only", "{R}C(=O)[O-].[H+]", "{R}C(=O)O"),
]

R_GROUPS = ["C", "CC", "c1ccccc1", "C1CCCCC1", "CCC", "C(C)C", "c1ccc(Cl)cc1", "c1ccc(OC)cc1",
            "c1ccncc1", "COC", "CCN(C)C", "c1ccc(cc1)[N+](=O)[O-]", "C(F)(F)F", "c1ccsc1",
            "CC(=O)OC", "c1ccc2ccccc2c1", "CCCCCC", "C=C", "c1ccc(Br)cc1", "CS(C)(=O)=O"]


@st.composite
def template_reaction(draw):
    name, lhs, rhs = draw(st.sampled_from(TEMPLATES))
    r = draw(st.sampled_from(R_GROUPS))
    rxn = lhs.format(R=r) + ">>" + rhs.format(R=r)
    if oracle.balanced(rxn) is None:
        rxn = lhs.format(R="C") + ">>" + rhs.format(R="C")
    return rxn, ["template:" + name]


@st.composite
def corpus_reaction(draw, max_heavy=None, max_mols=None):
    if max_heavy is None:
        pool = load_reactions("input")
    else:
        pool = load_reactions_capped("input", max_heavy, max_mols or 4)
    return draw(indexed(pool)), ["corpus"]


@st.composite
def generated_side_reaction(draw, max_heavy=20):
    """Reaction assembled from arbitrary valid closed-shell molecules (mostly unsolvable;
    exercises declines, carbon excess on products, ions, heavy elements)."""
    mol = molecule(True, max_heavy)
    ra = draw(st.lists(mol, min_size=1, max_size=3))
    rb = draw(st.lists(mol, min_size=1, max_size=3))
    return _join(ra) + ">>" + _join(rb), ["assembled"]


def any_reaction(max_heavy=30, max_mols=4, weights=(4, 4, 3, 1)):
    """Valid closed-shell-molecule reactions of all generator classes -> (rxn, tags)."""
    c, m, t, g = weights
    return st.one_of(
        *([corpus_reaction(max_heavy, max_mols)] * c
          + [mutated_balanced_reaction(max_heavy, max_mols)] * m
          + [template_reaction()] * t
          + [generated_side_reaction(min(max_heavy, 20))] * g))


MALFORMED = [
    ("unparsable", "xx>>yy"), ("unparsable", "C1CC>>CC"), ("unparsable", "CC(>>CC"),
    ("unparsable", "CCO>>C(C)(C)(C)(C)(C)C"), ("no_sep", "CCO"), ("no_sep", "CCO>CC=O"),
    ("two_sep", "CCO>>CC=O>>C"), ("reagent_style", "CCO>O>CC=O"), ("reagent_style", "A>B>C"),
    ("empty", ""), ("empty_side", "CCO>>"), ("empty_side", ">>CCO"), ("empty_side", ">>"),
    ("missing", None), ("missing_nan", float("nan")), ("space", "CCO >> CC=O"),
    ("three_gt", "CCO>>>CC=O"), ("unparsable", "[Xx]>>C"), ("unparsable", "c1ccccc>>C"),
]


@st.composite
def maybe_respelled(draw, rx_strategy, prob_den=4, **kw):
    """(rxn, tags) -> with probability 1/prob_den an equivalent respelling (maps, atom order...)."""
    rxn, tags = draw(rx_strategy)
    if draw(st.integers(0, prob_den - 1)) == 0:
        new = draw(respell_reaction(rxn, **kw))
        if new != rxn:
            return new, list(tags) + ["respelled"]
    return rxn, list(tags)


HEAVY_REACTIONS = [
    ("[U]>>[Th]", False), ("[U]>>[U]", True), ("[U].[Th]>>[Th].[U]", True), ("[Pu+3].[Cl-].[Cl-].[Cl-]>>Cl[Pu](Cl)Cl", True),
    ("[Ra+2].[Cl-].[Cl-]>>[Ra+2].[Cl-]", False), ("O=[U+2]=O.[OH-].[OH-]>>O=[U](O)(O)=O", True), ("O=[U+2]=O.[OH-]>>O=[U](O)(O)=O", False),
    ("[Rn]>>[Og]", False), ("[Fr+].[Cl-]>>[Fr]Cl", True), ("CC[U]>>CC[Th]", False), ("CCO.[U]>>CC=O.[U]", False),
    ("CCO.[Am]>>CCO.[Cm]", False), ("[Ac+3].[Ac+3]>>[Ac+3].[Pa+3]", False), ("CC(=O)O.[Lr]>>CC(=O)O.[Lr]", True),
    ("[Np]>>[Pu]", False), ("[No].[Md]>>[Md].[No]", True), ("[Rf].[Db]>>[Sg].[Bh]", False), ("[Cn]>>[Cn]", True),
    ("[Fl].C>>C.[Mc]", False), ("[Ts][Ts]>>[Ts].[Ts]", True), ("C[Hs]>>C[Mt]", False),
]


MARKER_MOLS = ["[H][H]", "OO", "OOC(C)(C)C", "OOC(C)=O", "OOC", "OOCc1ccccc1", "[H]O[H]", "[H]OC", "[H]C([H])([H])O",
               "[OH2]", "[CH4]", "[CH3][OH]", "[H]OO[H]", "[O-]O", "OO[Na]", "O", "[OH-]", "[H+]", "[H-]", "[2H][2H]",
               "[H]Cl", "[O]=C=[O]", "[O-][N+](=O)c1ccccc1", "O=O", "[H]N([H])[H]", "[HH]"]


@st.composite
def with_markers(draw, rx_strategy, max_markers=2):
    """Adds 1..max_markers molecules whose text contains the substrings the pipeline uses as markers
    ('.[H]', '.[O]', '.OO') at drawn positions (never first unless the side is empty)."""
    rxn, tags = draw(rx_strategy)
    a, b = oracle.split_reaction(rxn)
    sides = [a.split(".") if a else [], b.split(".") if b else []]
    for _ in range(draw(st.integers(1, max_markers))):
        m = draw(st.sampled_from(MARKER_MOLS))
        where = draw(st.sampled_from(["p", "p", "r", "both"]))
        for k in ([0] if where == "r" else [1] if where == "p" else [0, 1]):
            pos = draw(st.integers(0, len(sides[k])))
            sides[k].insert(pos, m)
    return ".".join(sides[0]) + ">>" + ".".join(sides[1]), list(tags) + ["markers"]


@functools.lru_cache(maxsize=None)
def mcs_prone_reactions(max_heavy=30, max_mols=4):
    """closed-shell corpus reactions whose reactants carry more carbon than the products (these reach the MCS stage)"""
    out = []
    for r in load_reactions_capped("input", max_heavy, max_mols):
        if not oracle.reaction_closed_shell(r):
            continue
        a, b = oracle.split_reaction(r)
        ca, cb = oracle.count_element(a, "C"), oracle.count_element(b, "C")
        if ca is not None and cb is not None and ca > cb:
            out.append(r)
    return tuple(out)


@st.composite
def mcs_prone_reaction(draw, max_heavy=30, max_mols=4):
    return draw(indexed(mcs_prone_reactions(max_heavy, max_mols))), ["corpus", "mcs-prone"]


@functools.lru_cache(maxsize=None)
def shared_reagent_index(max_heavy=40, max_mols=5):
    """carbon-containing reactant molecule (canonical) -> curated balanced reactions using it, for molecules used by >=2"""
    idx = {}
    for r in load_reactions_capped("balanced", max_heavy, max_mols):
        a, _ = oracle.split_reaction(r)
        for m in set(a.split(".")):
            if (oracle.count_element(m, "C") or 0) > 0:
                idx.setdefault(m, []).append(r)
    items = sorted(((m, tuple(v)) for m, v in idx.items() if len(v) >= 2), key=lambda kv: (len(kv[0]), kv[0]))
    return tuple(items)


@st.composite
def shared_reagent_union(draw):
    """union of two different curated balanced reactions that use the same reactant molecule: the balanced result
    lists that molecule twice (identical strings) on the reactant side but nowhere twice on the product side"""
    items = shared_reagent_index()
    m, rxs = draw(indexed(items))
    i = draw(st.integers(0, len(rxs) - 1))
    j = draw(st.integers(0, len(rxs) - 2))
    if j >= i:
        j += 1
    a1, b1 = oracle.split_reaction(rxs[i])
    a2, b2 = oracle.split_reaction(rxs[j])
    return a1 + "." + a2 + ">>" + b1 + "." + b2, ["balanced", "shared-reagent-union"]


@functools.lru_cache(maxsize=None)
def chiral_molecules(max_heavy=20):
    return tuple(m for m in load_molecules(True, max_heavy) if "@" in m)


def mirror(smiles):
    """the enantiomer / opposite-configured diastereomer spelling: every @ <-> @@"""
    return smiles.replace("@@", "\0").replace("@", "@@").replace("\0", "@")


@st.composite
def near_duplicate_pair_reaction(draw):
    """a side that holds two molecules differing only in stereo or isotope labels (both enantiomers written out, a
    labelled and an unlabelled copy), reacting to one copy's skeleton"""
    kind = draw(st.sampled_from(["stereo", "stereo", "isotope"]))
    if kind == "stereo":
        m = draw(indexed(chiral_molecules()))
        twin = mirror(m)
    else:
        m = draw(indexed(load_molecules(True, 16)[len(PRIMITIVES):]))
        mol = Chem.MolFromSmiles(m)
        cs = [a.GetIdx() for a in mol.GetAtoms() if a.GetSymbol() == "C"]
        if not cs:
            m, twin = "CC(N)C(=O)O", "[13CH3]C(N)C(=O)O"
        else:
            twin = Chem.MolToSmiles(_isotope(mol, cs[draw(st.integers(0, len(cs) - 1))], 13))
    if oracle.canon(twin) is None or oracle.canon(twin) == oracle.canon(m):
        m, twin = "C[C@H](N)C(=O)O", "C[C@@H](N)C(=O)O"
    flat = oracle.canon(m, isomeric=False)
    pair = [m, twin] if draw(st.booleans()) else [twin, m]
    if draw(st.booleans()):
        return ".".join(pair) + ">>" + flat, ["near-duplicate-pair"]
    return flat + ">>" + ".".join(pair), ["near-duplicate-pair"]


@functools.lru_cache(maxsize=None)
def periodic_covalent():
    """closed-shell covalent species X(Cl)n / X(CH3)n / X(=O)... for every element: the neutral bracket atom [X] with
    1-6 single bonds (whatever RDKit accepts without radicals). Gives two-letter symbols *inside* molecules
    (Cl[Sc](Cl)Cl, C[Sn](C)(C)C, Cl[Ti](Cl)(Cl)Cl, F[Xe]F ...), which bare atoms cannot (most are radicals)."""
    pt = Chem.GetPeriodicTable()
    out = []
    for z in range(3, 119):
        sym = pt.GetElementSymbol(z)
        for lig in ("Cl", "C", "O"):
            for n in range(1, 7):
                s = lig + "[%s]" % sym + "".join("(%s)" % lig for _ in range(n - 2)) + (lig if n >= 2 else "")
                m = Chem.MolFromSmiles(s)
                if m is not None and oracle.closed_shell(s) and not hypervalent_h(s):
                    out.append(Chem.MolToSmiles(m))
                    break   # the smallest closed-shell coordination per ligand
    return tuple(dict.fromkeys(out))
