"""Property-based verification machinery for TieuLongPhan/SynRBL (see /verif/DESIGN.md)."""
