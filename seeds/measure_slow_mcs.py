"""One-off: measure the MCS-stage wall time of every size-capped corpus reaction (single reaction, n_jobs=1) and
freeze the ones slower than 0.30 s into seeds/slow_mcs.txt. Two-execution comparisons (alone vs batch, fault vs
baseline, cache on vs off, threshold sweeps) leave these out so that RDKit's 1 s / the wrapper's 2 s wall-clock
limits stay far away; single-execution checks still see them through the full-corpus shards.
Run: PYTHONHASHSEED=0 PYTHONPATH=/verif /venv/bin/python seeds/measure_slow_mcs.py"""
import logging, os, sys, time, warnings
from multiprocessing import get_context
warnings.filterwarnings("ignore"); logging.disable(logging.CRITICAL)
sys.path.insert(0, os.path.dirname(os.path.dirname(os.path.abspath(__file__))))


def work(chunk):
    warnings.filterwarnings("ignore"); logging.disable(logging.CRITICAL)
    from synverif.props import c10
    out = []
    c10.make_rows(["CCO>>CC"], [False])
    rows = c10.make_rows(["CC(=O)OC>>CC(=O)O"], [False]); c10.search().find(rows)   # warm up
    for r in chunk:
        t = time.time()
        try:
            rows = c10.make_rows([r], [False]); c10.search().find(rows)
        except Exception:
            pass
        out.append((time.time() - t, r))
    return out


if __name__ == "__main__":
    from synverif import gen
    rx = [r for r in gen._capped_all("input", 40, 4)]
    chunks = [rx[i::8] for i in range(8)]
    with get_context("spawn").Pool(8) as p:
        res = [x for part in p.map(work, chunks) for x in part]
    slow = sorted(r for t, r in res if t > 0.30)
    open(os.path.join(os.path.dirname(os.path.abspath(__file__)), "slow_mcs.txt"), "w").write("\n".join(slow) + "\n")
    print(len(rx), "measured;", len(slow), "slower than 0.30 s; max %.2f" % max(t for t, _ in res))
