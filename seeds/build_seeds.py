"""One-off: freeze the seed corpus from /repo/Data/Validation_set/validation_set.csv.
Run: /venv/bin/python seeds/build_seeds.py   (outputs are committed; checks only read them)
"""
import csv, json, os, sys
sys.path.insert(0, os.path.dirname(os.path.dirname(os.path.abspath(__file__))))
from synverif import oracle as o
from rdkit import Chem

SRC = "/repo/Data/Validation_set/validation_set.csv"
OUT = os.path.dirname(os.path.abspath(__file__))
rows = list(csv.DictReader(open(SRC)))
mols = {}
unbalanced, balanced = [], []
for r in rows:
    rx = r["reaction"]
    if o.split_reaction(rx) is None:
        continue
    unbalanced.append(rx)
    for src in (rx, r["expected_reaction"]):
        sp = o.split_reaction(src)
        if sp is None:
            continue
        for side in sp:
            for part in side.split("."):
                c = o.canon(part)
                if c and c not in mols:
                    m = Chem.MolFromSmiles(c)
                    mols[c] = (m.GetNumHeavyAtoms(), o.closed_shell(c))
    e = r["expected_reaction"]
    if e and o.balanced(e) and o.reaction_closed_shell(e):
        sp = o.split_reaction(e)
        unm = ">>".join(".".join(o.canon(p) for p in s.split(".")) for s in sp)
        balanced.append(unm)
mol_list = sorted(mols.items(), key=lambda kv: (kv[1][0], len(kv[0]), kv[0]))
with open(os.path.join(OUT, "molecules.tsv"), "w") as f:
    for s, (n, cs) in mol_list:
        f.write("%s\t%d\t%d\n" % (s, n, int(cs)))
def rx_size(rx):
    return (sum(o.heavy_atoms(p) or 0 for s in rx.split(">>") for p in s.split(".") if p), len(rx), rx)
unb = sorted(set(unbalanced), key=rx_size)
bal = sorted(set(balanced), key=rx_size)
open(os.path.join(OUT, "reactions_input.txt"), "w").write("\n".join(unb) + "\n")
open(os.path.join(OUT, "reactions_balanced.txt"), "w").write("\n".join(bal) + "\n")
print(len(mol_list), "molecules", sum(1 for _, (n, cs) in mol_list if cs), "closed-shell;", len(unb), "input reactions;", len(bal), "balanced curated reactions")
