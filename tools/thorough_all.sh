#!/bin/bash
# runs the thorough tier of every check once (background sanity run; evidence written there is not committed)
cd "$(dirname "$0")/.."
IDS=${@:-C07 C08 C09 C15 C16 C17 C19 C20 C10 C04 C14 C01 C03 C02 C18 C05 C12 C11 C06 C13}
for id in $IDS; do
  start=$(date +%s)
  out=$(VERIF_SEED=${VERIF_SEED:-1} SYNVERIF_SCALE=${SYNVERIF_SCALE:-1} nice -n 5 ./check $id --tier thorough 2>/dev/null); rc=$?
  echo "thorough $id rc=$rc $(( $(date +%s)-start ))s :: $(echo "$out" | grep -E '^(VIOLATION|UNCONFIRMED|HARNESS)' | head -3 | tr '\n' ' ') $(echo "$out" | tail -1 | cut -c1-170)"
done
