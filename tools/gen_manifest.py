#!/venv/bin/python
"""Regenerates MANIFEST.json from the table below (single source of truth)."""
import json, os
ROOT = os.path.dirname(os.path.dirname(os.path.abspath(__file__)))
props = [json.loads(l) for l in open(os.path.join(ROOT, "properties.jsonl"))]
ids = [p["id"] for p in props]

# id -> (category, technique, level text, level note, design_ref)
CHECKS = {}
def claim(i, category, technique, text, note, ref):
    CHECKS[i] = (category, technique, text, note, ref)

exec(open(os.path.join(ROOT, "tools", "claims.py")).read())

NOT_APPLICABLE = {}
manifest = {
    "version": 1,
    "setup_cmd": "/venv/bin/python -c 'import hypothesis' 2>/dev/null || /venv/bin/pip install --no-index --find-links /opt/veriftools/wheels hypothesis",
    "hooks": {
        "guard": "SYNRBL_VERIF",
        "enable": "no source hooks exist in /repo: checks import synrbl from /repo's working tree (editable install in /venv) and inject faults by monkey-patching from the harness; ./check exports SYNRBL_VERIF=1 for uniformity only",
        "baseline_off_cmd": "cd /repo && env -u SYNRBL_VERIF /venv/bin/python -m pytest -ra -q -p no:cacheprovider --timeout=900 --continue-on-collection-errors",
        "source_commits": [],
        "add_only": True,
    },
    "engines": [{
        "name": "synverif", "path": "synverif/", "serves_properties": sorted(CHECKS),
        "kind_free_text": "Hypothesis-driven generated-input search (collect -> bucket -> shrink -> replay) with an RDKit-based independent chemistry oracle, exhaustive enumeration of small finite sub-domains, sharded over 16 processes",
    }],
    "checks": [],
    "notes": "Entry point ./check <ID> [--tier quick|thorough] [--replay file]; VERIF_SEED/VERIF_TIER honoured; exit 2 = harness error. Genuine defects repaired in /repo as 'fix:' commits and findings kept are listed in known_findings.json (see DESIGN.md sections 6 and 8.2-8.3; seeded changes and which check catches them: 8.6-8.10).",
    "not_applicable": [],
}
for i in ids:
    if i in CHECKS:
        cat, tech, text, note, ref = CHECKS[i]
        manifest["checks"].append({
            "property_id": i,
            "quick_cmd": "./check %s --tier quick" % i,
            "thorough_cmd": "./check %s --tier thorough" % i,
            "evidence_file": "evidence/%s.json" % i,
            "replay_cmd_template": "./check %s --replay {path}" % i,
            "engine": "synverif",
            "level_claimed": {"category": cat, "text": text, "design_ref": ref},
            "level_note": note,
            "technique": tech,
        })
    else:
        manifest["not_applicable"].append({"property_id": i, "reason": PENDING.get(i, "check not built yet in this session (under construction; see DESIGN.md section 4 for the planned generator and oracle)")})
json.dump(manifest, open(os.path.join(ROOT, "MANIFEST.json"), "w"), indent=1)
print("claimed:", sorted(CHECKS), "not claimed:", [i for i in ids if i not in CHECKS])
