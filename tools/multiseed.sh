#!/bin/bash
# usage: tools/multiseed.sh "<seeds>" [ids...]   runs quick checks for several VERIF_SEED values, prints one line each
cd "$(dirname "$0")/.."
SEEDS=${1:-"2 3"}; shift
IDS=${@:-$(for i in $(seq -w 1 20); do echo C$i; done)}
for s in $SEEDS; do for id in $IDS; do
  out=$(VERIF_SEED=$s nice -n 5 ./check $id --tier quick 2>/dev/null); rc=$?
  echo "seed=$s $id rc=$rc :: $(echo "$out" | grep -E '^(VIOLATION|UNCONFIRMED|HARNESS)' | head -3 | tr '\n' ' ') $(echo "$out" | tail -1 | cut -c1-160)"
done; done
