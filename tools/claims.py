PENDING = {}
TB = "trusted base: RDKit (parser, sanitiser, canonical SMILES, periodic table) and Hypothesis; absence of violations is never shown, only that none was found in the explored cases"
claim("C07", "exploration", "property-based testing against an independent composition oracle + exhaustive enumeration of small comparator inputs",
      "Generated-input search: every corpus molecule and every periodic-table species enumerated, Hypothesis-edited molecules/mixtures, and ALL ordered pairs of small composition vectors for the comparator, each judged by an oracle that shares no code with synrbl. Exhaustive only on the stated micro-domains.",
      TB + "; charge sign convention of the difference formula unspecified (magnitude checked)", "DESIGN.md 4/C07")
