PENDING = {}
TB = "trusted base: RDKit (parser, sanitiser, canonical SMILES, periodic table) and Hypothesis; absence of violations is never shown, only that none was found in the explored cases"
claim("C07", "exploration", "property-based testing against an independent composition oracle + exhaustive enumeration of small comparator inputs",
      "Generated-input search: every corpus molecule and every periodic-table species enumerated, Hypothesis-edited molecules/mixtures, and ALL ordered pairs of small composition vectors for the comparator, each judged by an oracle that shares no code with synrbl. Exhaustive only on the stated micro-domains.",
      TB + "; charge sign convention of the difference formula unspecified (magnitude checked)", "DESIGN.md 4/C07")
PIPE_NOTE = TB + "; exploration of generated batches through the real Balancer.rebalance, each row judged by the independent oracle"
claim("C01", "exploration", "property-based testing of Balancer.rebalance against an independent balance oracle (Hypothesis batches + enumerated redox-template / Z>86 / corpus sub-domains)",
      "Generated batches of corpus, mutated-balanced, redox-template and assembled reactions under drawn batch sizes, thresholds and worker counts; every solved row is re-balanced by an oracle sharing no code with synrbl. Failures are bucketed by stage/template and shrunk. No exhaustive claim beyond the enumerated template x R-group and Z>86 lists.",
      PIPE_NOTE, "DESIGN.md 4/C01")
claim("C02", "exploration", "property-based testing with a canonical-multiset containment oracle; marker-substring enrichment of inputs",
      "Generated reactions (half of them enriched with molecules spelling the pipeline's marker substrings) are run end-to-end; per side the canonical multiset of input molecules must be contained in the output and input_reaction must be the unmapped input. One genuine defect is recorded as known finding K02 and recognised by an input-shape predicate.",
      PIPE_NOTE, "DESIGN.md 4/C02")
claim("C03", "exploration", "property-based testing of decline/solve row invariants with an independent carbon-count oracle",
      "Generated reactions at the default threshold: declined rows must equal their input and carry an issue, solved rows must name a method and carry no issue, product-side carbon excess must be declined.",
      PIPE_NOTE, "DESIGN.md 4/C03")
claim("C04", "exploration", "property-based testing (forward: oracle-balanced inputs and their variants; converse: general inputs) with an independent balance oracle",
      "All curated oracle-balanced reactions (quarter in quick, all in thorough) and Hypothesis-built variants (reversal, multiples, unions, spectators, respelling) must pass as input-balanced unchanged; for general inputs the label input-balanced must imply oracle balance and no additions.",
      PIPE_NOTE, "DESIGN.md 4/C04")
claim("C18", "exploration", "property-based testing: statistics recomputed from returned rows (API stats argument and CLI .stats file)",
      "Generated runs (incl. malformed rows, batch partitions, demoting thresholds, CLI path) whose reported counters are compared with counts recomputed from the rows.",
      PIPE_NOTE + "; 'not solved before the MCS stage' is derived from final row labels", "DESIGN.md 4/C18")
