PENDING = {}
TB = "trusted base: RDKit (parser, sanitiser, canonical SMILES, periodic table) and Hypothesis; absence of violations is never shown, only that none was found in the explored cases"
claim("C07", "exploration", "property-based testing against an independent composition oracle + exhaustive enumeration of small comparator inputs",
      "Generated-input search: every corpus molecule and every periodic-table species enumerated, Hypothesis-edited molecules/mixtures, and ALL ordered pairs of small composition vectors for the comparator, each judged by an oracle that shares no code with synrbl. Exhaustive only on the stated micro-domains.",
      TB + "; charge sign convention of the difference formula unspecified (magnitude checked)", "DESIGN.md 4/C07")
PIPE_NOTE = TB + "; exploration of generated batches through the real Balancer.rebalance, each row judged by the independent oracle"
claim("C01", "exploration", "property-based testing of Balancer.rebalance against an independent balance oracle (Hypothesis batches + enumerated redox-template / Z>86 / corpus sub-domains)",
      "Generated batches of corpus, mutated-balanced, redox-template and assembled reactions under drawn batch sizes, thresholds and worker counts; every solved row is re-balanced by an oracle sharing no code with synrbl. Failures are bucketed by stage/template and shrunk. No exhaustive claim beyond the enumerated template x R-group and Z>86 lists.",
      PIPE_NOTE, "DESIGN.md 4/C01")
claim("C02", "exploration", "property-based testing with a canonical-multiset containment oracle; marker-substring enrichment of inputs",
      "Generated reactions (half of them enriched with molecules spelling the pipeline's marker substrings) are run end-to-end; per side the canonical multiset of input molecules must be contained in the output and input_reaction must be the unmapped input. The defects it found (marker substrings glued into neighbouring molecules; a given H2O2 product consumed) were repaired in /repo (ef0e6d9, 8d1e21d).",
      PIPE_NOTE, "DESIGN.md 4/C02")
claim("C03", "exploration", "property-based testing of decline/solve row invariants with an independent carbon-count oracle",
      "Generated reactions at the default threshold: declined rows must equal their input and carry an issue, solved rows must name a method and carry no issue, product-side carbon excess must be declined.",
      PIPE_NOTE, "DESIGN.md 4/C03")
claim("C04", "exploration", "property-based testing (forward: oracle-balanced inputs and their variants; converse: general inputs) with an independent balance oracle",
      "All curated oracle-balanced reactions (quarter in quick, all in thorough) and Hypothesis-built variants (reversal, multiples, unions, spectators, respelling) must pass as input-balanced unchanged; for general inputs the label input-balanced must imply oracle balance and no additions.",
      PIPE_NOTE, "DESIGN.md 4/C04")
claim("C18", "exploration", "property-based testing: statistics recomputed from returned rows (API stats argument and CLI .stats file)",
      "Generated runs (incl. malformed rows, batch partitions, demoting thresholds, CLI path) whose reported counters are compared with counts recomputed from the rows.",
      PIPE_NOTE + "; 'not solved before the MCS stage' is derived from final row labels", "DESIGN.md 4/C18")
claim("C05", "exploration", "property-based testing over row sequences x input forms (list/dict/CSV/JSON/CLI) with an independent validity oracle; enumeration of every malformed class x position x form",
      "Generated sequences mixing valid and malformed rows through every input form and batch layout; output must have one row per input, each describing its input (malformed: declined with issue), valid rows equal to their run-alone row, CLI pass-through tags aligned.",
      PIPE_NOTE + "; row validity decided independently (one '>>', both sides parse)", "DESIGN.md 4/C05")
claim("C06", "exploration", "metamorphic property-based testing: same reactions alone / batched / permuted / re-run / with 2-16 workers; stats additivity",
      "Generated reaction sets executed in 5-6 contexts; row keys must be identical and statistics additive and partition-independent. Mismatches must reproduce in a fresh process. Scheduling is varied through worker counts, not controlled.",
      PIPE_NOTE + "; cases with MCS timeout texts are inconclusive", "DESIGN.md 4/C06")
claim("C13", "exploration", "differential property-based testing against the threshold-0 run with thresholds constructed on both sides of every observed confidence",
      "Each generated batch is re-run at thresholds equal to, one ulp below/above and 0.001 below/above every confidence it produced; only MCS rows may change, exactly as conf >= t dictates, and a demotion must name t.",
      PIPE_NOTE, "DESIGN.md 4/C13")
claim("C14", "exploration", "metamorphic property-based testing: equivalent respellings / molecule permutations of composition-determined reactions",
      "Base reactions with input-balanced or rule-based outcome and 4-8 oracle-verified equivalent spellings each must get the same verdict and (template choice aside) the same added molecules.",
      PIPE_NOTE, "DESIGN.md 4/C14")
claim("C15", "exploration", "round-trip property-based testing of remove_atom_mapping against canonical-SMILES identity; enumeration of all corpus molecules and periodic species in 5 spellings",
      "Every closed-shell corpus molecule and periodic species in five deterministic mapped/explicit spellings plus Hypothesis spellings (drawn atom order, maps, kekule, explicit bonds/H, padding) must come back as the same molecule without maps; pipeline outputs must be map-free. One genuine defect class (hypervalent explicit-H atoms) is a listed known finding.",
      TB, "DESIGN.md 4/C15")
claim("C08", "exploration", "exhaustive enumeration of small imbalance vectors + property-based testing of the rule matcher/imputer/constraint against an independent composition oracle",
      "ALL imbalance vectors of 1-4 atoms (1-5 in thorough) over the databases' elements x charge -2..2 for both shipped databases, Hypothesis sums of database compounds, every database record, single_impute + RuleConstraint on generated entries and rule-based rows of real runs; completions must be database compounds with positive integer ratios summing exactly to the imbalance, and accepted completions must not add dihalogens.",
      TB + "; match() calls over a 5 s alarm are skipped (exponential search)", "DESIGN.md 4/C08")
claim("C17", "exploration", "metamorphic property-based testing of normalize_smiles / wc_similarity over permutations, respellings and anagram-isomer sets",
      "Stereo-free reactions incl. reactions built from anagram isomer groups mined from the corpus: all molecule permutations (<=4 per side) and drawn respellings must normalise identically (idempotently) and score similarity exactly 1 under the three methods; random pairs must give symmetric values in [0,1].",
      TB, "DESIGN.md 4/C17")
claim("C19", "exploration", "model-based testing of RuleImputeManager over operation histories: exhaustive short histories, Hypothesis histories to length 30, hypothesis.stateful machine; ordered-list reference model + composition oracle",
      "ALL histories of length <=3 (empty start; <=2 for shipped starts in quick) over a 16-compound alphabet with add / bulk-add / remove, random histories to length 30 and a RuleBasedStateMachine, each step compared with an ordered-list model and the oracle composition. Shipped duplicate records are a listed known finding (K19).",
      TB + "; uniqueness = string identity as the manager claims", "DESIGN.md 4/C19")
claim("C20", "exploration", "property-based testing of MoleculeStandardizer with composition / parse / idempotence oracles on enol- and hemiketal-enriched molecules",
      "Every corpus molecule (third in quick, all in thorough), all rooted spellings of 45 hand-built enol/hemiketal/ortho-acid/enolate/metal-alkoxide seeds and Hypothesis-built molecules with several such groups and mixtures must standardise without exception to a parsable SMILES of identical composition and charge, idempotently; a sample is repeated under other PYTHONHASHSEED values (fgutils group detection depends on it).",
      TB + "; fgutils' FGQuery is a third-party dependency whose output varies with PYTHONHASHSEED", "DESIGN.md 4/C20")
claim("C09", "exploration", "round-trip property-based testing of fragment merging (cut one bond, merge, compare with the original) plus independent rebuild of rule-named completions",
      "Generated (molecule, acyclic single bond) cuts over corpus and edited molecules in two-fragment, one-fragment, catalyst and cross-molecule modes through merge(); the result must equal the original connectivity (or the fragments when a restriction rule is reported), or the fragment bonded to the compound named by the reported expand rule as rebuilt independently from the rule files; atom conservation clauses always.",
      TB + "; stereo marks excluded by the statement; rule choice itself is trusted as reported", "DESIGN.md 4/C09")
claim("C16", "exploration", "property-based testing of the functional-group matcher: renumbering metamorphic relation + differential against RDKit substructure search on explicit SMARTS + recomputed combinator",
      "Every atom of generated / corpus / ring-rich molecules x every configured pattern, group and anti-pattern structure: pattern_match compared both ways with an RDKit substructure reference, is_functional_group compared under atom renumbering and against the pattern/anti-pattern combinator. The tree-walk false positives in cyclic neighbourhoods are a listed known finding (K16); false positives elsewhere and all misses are violations.",
      TB + "; RDKit GetSubstructMatches is the reference for 'real occurrence'", "DESIGN.md 4/C16")
claim("C10", "exploration", "property-based testing of MCSSearch.find against RDKit substructure matching + batch-vs-alone metamorphic relation; exhaustive enumeration of small selection tables for get_largest_condition",
      "Generated batches of reaction dictionaries through MCSSearch.find (molecule multiset, pattern containment, id attribution, batch == alone, retained entry == maximum over a separate ensemble_mcs run) and ALL 1-row (2-row in thorough) tables of up to 3 conditions over a 10-letter alphabet through the selection step.",
      TB + "; RDKit SMARTS matching is the reference for containment; timeouts make a case inconclusive", "DESIGN.md 4/C10")
claim("C12", "fault_enumeration", "model-based testing over run/crash/rerun histories on a shared cache directory (reference = the same run with caching off) + exhaustive enumeration of every byte prefix of a cache file",
      "Generated histories of runs (overlapping inputs, batch sizes, thresholds, column names), crash states of existing cache files (deleted, empty, truncated, leftover temp file, foreign JSON) and reruns, each completed run compared with its cache-off result; every byte prefix of the cache file of several batches is fed to CacheManager.load_cache and a stride of them end-to-end.",
      TB + "; crash model = file absent / empty / byte prefix / leftover temp file (rename-based writes make other torn states unreachable)", "DESIGN.md 4/C12")
claim("C11", "fault_enumeration", "fault-injection property-based testing: generated and enumerated fault plans (internal exception / real ThreadPool timeout with late-writing abandoned thread) over MCS search and fragment-analysis jobs; differential against the fault-free run of the same batch",
      "For fixed batches every single-job fault (exception, timeout) and every 'all conditions of one reaction fail' plan is enumerated; Hypothesis draws multi-fault plans with delays 60-600 ms on generated batches. Unaffected rows must equal the fault-free baseline, affected rows must be solved-and-balanced or declined unchanged with a reason, no row may be lost. Faults are injected in-process (n_jobs=1) by a ThreadPool shim and by raising inside the wrapped search calls; OS scheduling and worker-process death are not modelled.",
      TB + "; timing-dependent late writes are exercised with real threads but a narrower race window than the delay grid can be missed; violations must reproduce on 1 of 5 replays", "DESIGN.md 4/C11")
