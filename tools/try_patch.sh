#!/bin/bash
# usage: tools/try_patch.sh <patch.diff> <ID> [<ID>...]   (env TIER=quick|thorough)
# Applies a seeded change to /repo, runs the listed checks, and always restores /repo.
set -u
P=$(readlink -f "$1"); shift
cd /repo || exit 2
if ! git diff --quiet; then echo "/repo has uncommitted changes; refusing"; exit 2; fi
git apply "$P" || { echo "patch does not apply"; exit 2; }
trap 'git -C /repo checkout -- . ; git -C /repo clean -fdq -- synrbl >/dev/null 2>&1' EXIT
cd /verif
for id in "$@"; do
  start=$(date +%s)
  out=$(./check "$id" --tier "${TIER:-quick}" 2>/dev/null); rc=$?
  echo "== $id rc=$rc ($(( $(date +%s)-start ))s)"
  echo "$out" | grep -E "^(VIOLATION|FAILURE|KNOWN-FINDING|HARNESS|UNCONFIRMED)" | cut -c1-400 | head -8
  echo "$out" | tail -1
done
git -C /verif checkout -- evidence 2>/dev/null
