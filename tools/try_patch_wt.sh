#!/bin/bash
# usage: tools/try_patch_wt.sh <patch.diff> <ID> [<ID>...]   (env TIER=quick|thorough)
# Like try_patch.sh but applies the change in a scratch git worktree (never touches /repo) and points the
# checks at it through SYNVERIF_REPO. Evidence/replays written by these runs are discarded.
set -u
P=$(readlink -f "$1"); shift
WT=$(mktemp -d /var/tmp/synrbl-mut-XXXXXX)
git -C /repo worktree add -q --detach "$WT" HEAD || exit 2
trap 'git -C /repo worktree remove --force "$WT" >/dev/null 2>&1; rm -rf "$WT"' EXIT
git -C "$WT" apply "$P" || { echo "patch does not apply"; exit 2; }
cd /verif
EVD=$(mktemp -d /var/tmp/synverif-ev-XXXXXX); cp -a evidence/. "$EVD"/ 2>/dev/null
for id in "$@"; do
  start=$(date +%s)
  out=$(SYNVERIF_REPO="$WT" ./check "$id" --tier "${TIER:-quick}" 2>/dev/null); rc=$?
  echo "== $id rc=$rc ($(( $(date +%s)-start ))s)"
  echo "$out" | grep -E "^(VIOLATION|FAILURE|HARNESS|UNCONFIRMED)" | cut -c1-400 | head -6
  echo "$out" | tail -1 | cut -c1-200
done
cp -a "$EVD"/. evidence/; rm -rf "$EVD"
