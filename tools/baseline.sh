#!/bin/bash
# Runs the pinned suite (BASELINE.json cmd) with the verification guard off and
# compares against BASELINE.stable_pass. Exit 0 iff every stable test passes.
unset SYNRBL_VERIF
OUT=${1:-/var/tmp/synrbl-baseline.junit.xml}
cd /repo && /venv/bin/python -m pytest -ra -q -p no:cacheprovider --timeout=900 --continue-on-collection-errors --junitxml="$OUT" >/var/tmp/synrbl-baseline.log 2>&1
/venv/bin/python - "$OUT" <<'PY'
import json,sys,xml.etree.ElementTree as ET
base=json.load(open('/root/.vp/BASELINE.json'))
t=ET.parse(sys.argv[1]).getroot()
ok=set()
for tc in t.iter('testcase'):
    name=tc.get('classname')+'::'+tc.get('name')
    if not any(c.tag in('failure','error','skipped') for c in tc):
        ok.add(name)
missing=[n for n in base['stable_pass'] if n not in ok]
print('passed',len(ok),'stable_missing',len(missing))
for m in missing: print('  MISSING',m)
sys.exit(1 if missing else 0)
PY
