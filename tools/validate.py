"""python3-vt tools/validate.py : validates MANIFEST.json and evidence/*.json against the schemas."""
import json, glob, sys, os
import jsonschema
R = os.path.dirname(os.path.dirname(os.path.abspath(__file__)))
ok = True
m = json.load(open(R + "/MANIFEST.json"))
jsonschema.validate(m, json.load(open("/root/.vp/MANIFEST.schema.json")))
ids = [json.loads(l)["id"] for l in open(R + "/properties.jsonl")]
claimed = [c["property_id"] for c in m["checks"]]
na = [c["property_id"] for c in m.get("not_applicable", [])]
assert sorted(claimed + na) == sorted(ids), (claimed, na)
es = json.load(open("/root/.vp/EVIDENCE.schema.json"))
for c in m["checks"]:
    p = os.path.join(R, c["evidence_file"])
    if not os.path.exists(p):
        print("MISSING evidence", p); ok = False; continue
    e = json.load(open(p))
    try:
        jsonschema.validate(e, es)
        assert e["level"] == c["level_claimed"]["category"], "level mismatch"
        print("ok", c["property_id"], e["tier"], e["coverage"]["evaluations"], e["coverage"]["distinct_nontrivial"], "viol", e.get("violations"))
    except Exception as ex:
        print("INVALID", p, str(ex)[:300]); ok = False
print("manifest valid; claimed", len(claimed), "n/a", len(na))
sys.exit(0 if ok else 1)
