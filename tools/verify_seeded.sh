#!/bin/bash
# usage: tools/verify_seeded.sh <ID> <dir with patch.diff demo.py meta.json> [extra check ids...]
# Confirms an independently written property-breaking change: applies it in a fresh scratch worktree, runs the pinned
# suite there, runs the demonstration against the changed and the unchanged checkout, then runs our checks against it.
set -u
ID=$1; SRC=$(readlink -f "$2"); shift 2; EXTRA="$@"
WT=$(mktemp -d /var/tmp/synrbl-seed-XXXXXX)
git -C /repo worktree add -q --detach "$WT" HEAD || exit 2
trap 'git -C /repo worktree remove --force "$WT" >/dev/null 2>&1; rm -rf "$WT"' EXIT
git -C "$WT" apply "$SRC/patch.diff" || { echo "RESULT patch does not apply"; exit 2; }
echo "files: $(git -C "$WT" diff --stat | tail -1)"
# 1. pinned suite inside the worktree (import synrbl resolves to the worktree because pytest runs from there)
( cd "$WT" && env -u SYNRBL_VERIF /venv/bin/python -m pytest -q -p no:cacheprovider --timeout=900 --continue-on-collection-errors --junitxml="$WT/junit.xml" >/dev/null 2>&1 )
/venv/bin/python - "$WT/junit.xml" <<'PY'
import json,sys,xml.etree.ElementTree as ET
base=json.load(open('/root/.vp/BASELINE.json'))
t=ET.parse(sys.argv[1]).getroot(); ok=set()
for tc in t.iter('testcase'):
    if not any(c.tag in('failure','error','skipped') for c in tc): ok.add(tc.get('classname')+'::'+tc.get('name'))
missing=[n for n in base['stable_pass'] if n not in ok]
print('suite: passed',len(ok),'stable_missing',len(missing), missing[:5])
PY
# 2. demonstration
( cd "$SRC" && PYTHONHASHSEED=0 PYTHONPATH="$WT" timeout 900 /venv/bin/python demo.py >/var/tmp/demo_changed.log 2>&1 ); echo "demo(changed) rc=$? $(tail -2 /var/tmp/demo_changed.log | tr '\n' ' ' | cut -c1-300)"
( cd "$SRC" && PYTHONHASHSEED=0 PYTHONPATH=/repo timeout 900 /venv/bin/python demo.py >/var/tmp/demo_orig.log 2>&1 ); echo "demo(unchanged) rc=$? $(tail -1 /var/tmp/demo_orig.log | cut -c1-200)"
# 3. our checks
cd /verif
EVD=$(mktemp -d /var/tmp/synverif-ev-XXXXXX); cp -a evidence/. "$EVD"/ 2>/dev/null
for id in $ID $EXTRA; do
  start=$(date +%s)
  out=$(SYNVERIF_REPO="$WT" ./check "$id" --tier "${TIER:-quick}" 2>/dev/null); rc=$?
  echo "== check $id rc=$rc ($(( $(date +%s)-start ))s)"
  echo "$out" | grep -E "^(VIOLATION|FAILURE|HARNESS|UNCONFIRMED)" | cut -c1-500 | head -6
  echo "$out" | tail -1 | cut -c1-200
done
cp -a "$EVD"/. evidence/; rm -rf "$EVD"
