import warnings, logging, pickle
warnings.filterwarnings("ignore"); logging.disable(logging.CRITICAL)
from rdkit import RDLogger; RDLogger.DisableLog('rdApp.*')
import synrbl; print(synrbl.__file__)
from synrbl import Balancer
from synrbl.SynUtils.chem_utils import normalize_smiles, wc_similarity, remove_atom_mapping
from oracle import *
rx,res,stats = pickle.load(open('val_run.pkl','rb'))
b=Balancer(n_jobs=1)
for r in [rx[4098], "[U]>>[Th]", "CCCO>>CCC(=O)O", "CC=O>>CC(=O)O", "CCO.[O]>>CC=O","CC(=O)C>>CC(O)C"]:
    o=b.rebalance(r, output_dict=True)[0]
    print(o['solved'], o.get('solved_by'), balanced(o['reaction']), o['reaction'][:200], o.get('issue'))
print(remove_atom_mapping("c1:c:c:c:c:c:1"), remove_atom_mapping("[CH3:1][c:2]1:[cH:3]:[cH:4]:[cH:5]:[cH:6]:[cH:7]:1"))
print(normalize_smiles("CCCO.CCOC>>CC")==normalize_smiles("CCOC.CCCO>>CC"), wc_similarity("CCCO.CCOC>>CC","CCOC.CCCO>>CC"))
