import time, json, logging
t=time.time()
from synrbl import Balancer
print("import", time.time()-t)
t=time.time()
b = Balancer(n_jobs=1)
print("ctor", time.time()-t)
rxns = ["CC(=O)OCC>>CC(=O)O", "CCO>>CC=O", "CCO>>CCO", "CCCO>>CCC(=O)O", "CC=O>>CC(=O)O", "[U]>>[Th]", "CCO>>CCOC", "c1ccccc1Br.OB(O)c1ccccc1>>c1ccccc1-c1ccccc1",
 "CC(=O)Cl.N>>CC(N)=O"]
t=time.time()
stats={}
res = b.rebalance(rxns, output_dict=True, stats=stats)
print("run", time.time()-t)
for r in res: print(r)
print(stats)
