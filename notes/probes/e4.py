import pickle, re
from collections import Counter
from oracle import *
from rdkit import RDLogger; RDLogger.DisableLog('rdApp.*')
rx,res,stats = pickle.load(open(__import__('sys').argv[1],'rb'))
print(Counter((r['solved'], r.get('solved_by')) for r in res))
bad01=[]; bad02=[]; bad03=[]; maps=[]
for i,(inp,r) in enumerate(zip(rx,res)):
    if r['solved']:
        bl = balanced(r['reaction'])
        if bl is not True: bad01.append((i,r['solved_by'],r['input_reaction'],r['reaction'],bl))
        if r.get('solved_by') not in ('input-balanced','rule-based','mcs-based') or r.get('issue','') not in ('',None) and r.get('issue')==r.get('issue'):
            bad03.append((i,'solved-with-issue',r))
    else:
        if r['reaction']!=r['input_reaction'] or not r.get('issue'): bad03.append((i,'unsolved',r))
    # C02 containment
    try:
        ir, ip = r['input_reaction'].split('>>'); orr, op = r['reaction'].split('>>')
        if (mols(ir)-mols(orr)) or (mols(ip)-mols(op)): bad02.append((i,r.get('solved_by'),r['input_reaction'],r['reaction']))
    except Exception as e: bad02.append((i,'exc',str(e)))
    if re.search(r':\d+\]', r['reaction']): maps.append(i)
print("C01 bad", len(bad01)); 
for x in bad01[:12]: print(x)
print("C02 bad", len(bad02)); 
for x in bad02[:12]: print(x)
print("C03 bad", len(bad03)); 
for x in bad03[:8]: print(x)
print("maps", len(maps))
print(Counter(r.get('issue') for r in res if not r['solved']).most_common(20))
