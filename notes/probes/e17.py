import warnings, json, random, time, importlib.resources
warnings.filterwarnings("ignore")
from rdkit import Chem, RDLogger; RDLogger.DisableLog('rdApp.*')
import synrbl.SynRuleImputer
from synrbl.SynRuleImputer.synthetic_rule_matcher import SyntheticRuleMatcher
from collections import Counter
from oracle import comp
with importlib.resources.files(synrbl.SynRuleImputer).joinpath('rules_manager.json.gz').open('r') as f: rules=json.load(f)
pt=Chem.GetPeriodicTable()
def truecomp(s):
    c,q=comp(s); d=Counter({pt.GetElementSymbol(z):n for z,n in c.items()}); d['Q']=q; return d
smiles_ok = {r['smiles'] for r in rules}
rng=random.Random(1)
elems = sorted({k for r in rules for k in r['Composition'] if k!='Q'})
print(len(elems), elems)
bad=0; n=0; nsol=0; tmax=0; empty=0
for it in range(3000):
    if it%2==0:
        v=Counter()
        for _ in range(rng.randint(1,3)):
            r=rng.choice(rules); k=rng.randint(1,3)
            for e,c in r['Composition'].items(): v[e]+=c*k
    else:
        v=Counter({e:rng.randint(1,4) for e in rng.sample(elems, rng.randint(1,3))}); v['Q']=rng.randint(-2,2)
    dd={k:val for k,val in v.items() if val!=0 or k=='Q'}
    t=time.time()
    sols = SyntheticRuleMatcher(rules, dict(dd), select='all', ranking='ion_priority').match()
    tmax=max(tmax,time.time()-t); n+=1
    if not sols: empty+=1
    for s in sols:
        nsol+=1
        tot=Counter()
        for item in s:
            assert item['smiles'] in smiles_ok and isinstance(item['Ratio'],int) and item['Ratio']>0, item
            for e,c in truecomp(item['smiles']).items(): tot[e]+=c*item['Ratio']
        a={k:x for k,x in tot.items() if x}; b={k:x for k,x in dd.items() if x}
        if a!=b:
            bad+=1
            if bad<5: print('BAD', dd, s)
print(n, nsol, empty, bad, tmax)
