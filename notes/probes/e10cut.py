from rdkit import Chem
def cut(mol, bond):
    a,b = bond.GetBeginAtomIdx(), bond.GetEndAtomIdx()
    rw = Chem.RWMol(mol)
    rw.RemoveBond(a,b)
    for i in (a,b):
        at = rw.GetAtomWithIdx(i)
        at.SetNumExplicitHs(at.GetTotalNumHs()+1); at.SetNoImplicit(True)
    m = rw.GetMol(); Chem.SanitizeMol(m)
    frags = Chem.GetMolFrags(m)
    out=[]
    for f in frags:
        anchor = a if a in f else b
        other = b if anchor==a else a
        # make sub-mol
        em = Chem.RWMol(m)
        for i in sorted(set(range(m.GetNumAtoms()))-set(f), reverse=True): em.RemoveAtom(i)
        sub = em.GetMol()
        sub_idx = sorted(f).index(anchor)
        smi = Chem.MolToSmiles(sub)
        order = list(sub.GetPropsAsDict(True,True)['_smilesAtomOutputOrder'])
        new_idx = order.index(sub_idx)
        out.append((smi,new_idx,anchor,other))
    return out
