import warnings, logging, sys, random, time, types, multiprocessing, multiprocessing.pool
warnings.filterwarnings("ignore"); logging.disable(logging.CRITICAL)
from rdkit import Chem, RDLogger; RDLogger.DisableLog('rdApp.*')
from synrbl import Balancer
import synrbl.SynMCSImputer.SubStructure.mcs_process as mp
import synrbl.SynMCSImputer.MissingGraph.find_graph_dict as fgd
from oracle import *
rx = ["CC(=O)OCC>>CC(=O)O", "COC(=O)c1ccccc1>>OC(=O)c1ccccc1", "CCO>>CC=O", "CC(=O)Nc1ccccc1>>Nc1ccccc1", "CCOC(=O)CC>>CCC(=O)O"]
b = Balancer(n_jobs=1)
def key(r): return (r['reaction'], r['solved'], r.get('solved_by'), r.get('confidence'), tuple(r.get('rules') or ()), r.get('issue') or '')
base = b.rebalance(rx, output_dict=True)

class Plan:
    def __init__(self): self.mcs={}; self.graph={}; self.log=[]; self.graph_calls=0
PLAN=Plan()
def cond_index(kw):
    return {('MCIS',True):0, ('MCIS',False):1}.get((kw.get('method'), kw.get('RingMatchesRingOnly')), 2)
class ShimResult:
    def __init__(self, real, short): self.real=real; self.short=short
    def get(self, timeout=None):
        return self.real.get(self.short if self.short is not None else timeout)
class ShimPool:
    def __init__(self, n): self.real=multiprocessing.pool.ThreadPool(n)
    def terminate(self): self.real.terminate()
    def apply_async(self, func, args=(), kwds={}):
        short=None; f=func
        if func.__name__=='single_mcs':
            act=PLAN.mcs.get((args[0]['id'], cond_index(kwds)))
        else:
            act=PLAN.graph.get(PLAN.graph_calls); PLAN.graph_calls+=1
        PLAN.log.append((func.__name__, act))
        if act and act[0]=='timeout':
            delay=act[1]; short=0.05
            def f(*a, **k):
                time.sleep(delay); return func(*a, **k)
        elif act and act[0]=='raise':
            def f(*a, **k): raise RuntimeError('injected')
        return ShimResult(self.real.apply_async(f, args, kwds), short)
shim = types.SimpleNamespace(pool=types.SimpleNamespace(ThreadPool=ShimPool), TimeoutError=multiprocessing.TimeoutError)
mp.multiprocessing = shim; fgd.multiprocessing = shim
def run(mcs={}, graph={}):
    PLAN.mcs=mcs; PLAN.graph=graph; PLAN.log=[]; PLAN.graph_calls=0
    t=time.time(); out=b.rebalance(rx, output_dict=True); dt=time.time()-t
    print('plan', mcs, graph, 'dt %.2f'%dt, 'rows', len(out))
    for i,(r0,r) in enumerate(zip(base,out)):
        same = key(r)==key(r0)
        if not same: print('   row',i,'changed:', r['solved'], balanced(r['reaction']), r['reaction']==r['input_reaction'], repr(r.get('issue'))[:100])
run()
run(mcs={('0',0):('timeout',0.1)})
run(mcs={('0',0):('timeout',0.1),('0',1):('timeout',0.1),('0',2):('timeout',0.3)})
run(mcs={('1',2):('raise',)})
run(graph={0:('timeout',0.1)})
run(graph={1:('raise',), 3:('timeout',0.2)})
print(PLAN.log)
time.sleep(0.5)
