import warnings, logging, sys
warnings.filterwarnings("ignore"); logging.disable(logging.CRITICAL)
from rdkit import Chem, RDLogger; RDLogger.DisableLog('rdApp.*')
from synrbl import Balancer
from oracle import *
b = Balancer(n_jobs=1)
tests = ["CC(=O)Cl.N>>CC(N)=O.OO", "CC(=O)Cl.N.OO>>CC(N)=O.OO", "CCBr.OO>>CCO.OO", "CC(=O)C.[H][H].Cl>>CC(O)C.[H][H]", "CC(C)=O.N>>CC(C)=N.[H][H]",
 "CCBr>>CC.OOC(C)(C)C", "CC(=O)OC.[Na+].[OH-]>>CC(=O)[O-].[Na+]", "C[N+](C)(C)C.[OH-]>>CN(C)C", "CCO.[Na]>>CC[O-].[Na+]", "CC=O.[H-].[Na+]>>CCO", "CC(C)O.[O][O]>>CC(C)=O",
 "CC(C)O.[O]>>CC(C)=O", "CC[O-].[Na+].CI>>CCOC", "c1ccccc1[N+]#N.[Cl-]>>c1ccccc1Cl", "CCO.OO>>CC=O", "CC.OO>>CCO", "CC(=O)[O-].[K+].[H][H]>>CC(=O)O.[H][H]"]
for r in tests:
    o = b.rebalance(r, output_dict=True)[0]
    ir,ip = o['input_reaction'].split('>>'); orr,op = o['reaction'].split('>>')
    lost = (mols(ir)-mols(orr), mols(ip)-mols(op))
    print(r, '=>', o['reaction'], o['solved'], o.get('solved_by'), 'bal', balanced(o['reaction']), 'LOST' if lost[0] or lost[1] else '', o.get('issue'))
