import warnings, logging
warnings.filterwarnings("ignore")
from rdkit import Chem, RDLogger; RDLogger.DisableLog('rdApp.*')
from synrbl.SynUtils.chem_utils import normalize_smiles, wc_similarity, remove_atom_mapping
print(normalize_smiles("[H]C([H])([H])O"), normalize_smiles("CO"), normalize_smiles("[CH3][OH]"), normalize_smiles("C(=O)O.OC=O"))
from synrbl.SynChemImputer.molecule_standardizer import MoleculeStandardizer
ms = MoleculeStandardizer()
for s in ["C=C[O-]", "CC(O)(O)O", "C=CO", "CC(O)(O)C", "OC(O)C=CO", "C=C(O)C=C(O)C", "CC(O)(OC)C", "OC(O)(O)O", "C=C(O)O", "C[Mg]OC=C", "C=CO.C=CO", "OC=CC(O)(O)C", "c1ccccc1O", "Oc1ccc(O)cc1", "OC1=CCCCC1", "C=C(O)[O-]", "[O-]C(O)C", "CC(O)O", "OCO", "C(O)(O)=C", "N=C(O)C", "C=C(C)O[Na]"]:
    try:
        o = ms(s)
    except Exception as e:
        o = "EXC %r" % e
    def f(x):
        m = Chem.MolFromSmiles(x)
        if m is None: return None
        from rdkit.Chem.rdMolDescriptors import CalcMolFormula
        return CalcMolFormula(m)
    try: o2 = ms(o) if not o.startswith("EXC") else None
    except Exception as e: o2 = "EXC %r"%e
    print(s, '->', o, f(s), f(o) if not o.startswith("EXC") else '', 'idem' if o2==o else 'NOT-IDEM %s'%o2)
