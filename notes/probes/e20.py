import warnings, logging, sys, random, pickle, time
warnings.filterwarnings("ignore"); logging.disable(logging.CRITICAL)
import pandas as pd
from rdkit import Chem, RDLogger; RDLogger.DisableLog('rdApp.*')
from collections import Counter
from synrbl.SynProcessor import RSMIDecomposer, RSMIComparator, CheckCarbonBalance
from synrbl.SynMCSImputer.utils import is_carbon_balanced
from oracle import *
pt=Chem.GetPeriodicTable()
df = pd.read_csv('/repo/Data/Validation_set/validation_set.csv')
mols_=set()
for col in ('reaction','expected_reaction'):
    for r in df[col].dropna():
        for s in r.replace('>>','.').split('.'): mols_.add(s)
print(len(mols_))
bad=Counter(); n=0
def true(s):
    r=comp(s)
    if r is None: return None
    d={pt.GetElementSymbol(z):k for z,k in r[0].items()}
    if r[1]!=0: d['Q']=r[1]
    return d
for s in mols_:
    t=true(s); g=RSMIDecomposer.decompose(s); n+=1
    if t is None: bad['unparsable']+=1; continue
    if t!=g: bad['diff']+=1; print(s,t,g) if bad['diff']<5 else None
print(n,bad)
# all elements
for z in range(1,119):
    sym=pt.GetElementSymbol(z)
    for s in ('[%s]'%sym, '[%s+]'%sym, '[%sH2]'%sym, '[13%s]'%sym if z==6 else '[%s-]'%sym):
        t=true(s); g=RSMIDecomposer.decompose(s)
        if t is not None and t!=g: bad['elem',z>86]+=1; print(s,t,g) if z in (87,92,1) else None
print(bad)
print(RSMIDecomposer.decompose('[2H]O[2H]'), true('[2H]O[2H]'), RSMIDecomposer.decompose('[H][H]'), RSMIDecomposer.decompose('[H+]'), RSMIDecomposer.decompose('*C'), RSMIDecomposer.decompose('C.C.[Na+].[Cl-]'))
