import warnings, logging, sys, random, time, itertools
warnings.filterwarnings("ignore"); logging.disable(logging.CRITICAL)
from rdkit import Chem, RDLogger; RDLogger.DisableLog('rdApp.*')
from synrbl.SynMCSImputer.SubStructure.extract_common_mcs import ExtractMCS
alpha = [[], [""], ["[#6]"], ["[#6]-[#6]"], ["[#6]-[#8]","[#6]"], ["", "[#6]"], ["[#6]-[#6]-[#8]"], ["[#6]","[#6]-[#8]"]]
def atoms(l):
    t=0
    for s in l:
        m=Chem.MolFromSmarts(s) if s else None
        t+= m.GetNumAtoms() if m else 0
    return t
rng=random.Random(1); bad=0; n=0; dropped_pos=0
t=time.time()
for it in range(400):
    k=rng.randint(1,3); nrow=rng.randint(0,3)
    conds=[[{'id':str(i),'mcs_results':list(rng.choice(alpha)),'sorted_reactants':['C'],'issue':rng.choice(['','fail']), 'c':c} for i in range(nrow)] for c in range(k)]
    out=ExtractMCS.get_largest_condition(*conds); n+=1
    ids=[o['id'] for o in out]
    if ids!=sorted(set(ids), key=int): bad+=1; print('order/dup', ids)
    for o in out:
        i=int(o['id']); best=max(atoms(c[i]['mcs_results']) for c in conds)
        if not any(o is c[i] for c in conds): bad+=1; print('not identical entry')
        if atoms(o['mcs_results'])!=best: bad+=1; print('not largest', [c[i]['mcs_results'] for c in conds], o['mcs_results'])
    for i in range(nrow):
        best=max(atoms(c[i]['mcs_results']) for c in conds)
        if best>0 and str(i) not in ids: dropped_pos+=1
print(n,bad,'dropped with positive max', dropped_pos, time.time()-t)
