import warnings, logging, sys, time
warnings.filterwarnings("ignore")
import pandas as pd
from rdkit import Chem, RDLogger; RDLogger.DisableLog('rdApp.*')
import synrbl.SynUtils.functional_group_utils as fg
from collections import Counter
BT = {Chem.BondType.SINGLE:'-', Chem.BondType.DOUBLE:'=', Chem.BondType.TRIPLE:'#', Chem.BondType.AROMATIC:':'}
def to_query(pm):
    # build SMARTS via writing atoms as [#Z] using rdkit editing
    q = Chem.RWMol()
    for a in pm.GetAtoms():
        qa = Chem.AtomFromSmarts('[#%d]' % a.GetAtomicNum()); q.AddAtom(qa)
    for b in pm.GetBonds():
        q.AddBond(b.GetBeginAtomIdx(), b.GetEndAtomIdx(), b.GetBondType())
        qb = Chem.BondFromSmarts(BT[b.GetBondType()])
        q.ReplaceBond(q.GetBondBetweenAtoms(b.GetBeginAtomIdx(), b.GetEndAtomIdx()).GetIdx(), qb)
    return q.GetMol()
def ref_match(mol, anchor, pm, pattern_anchor=None):
    q = to_query(pm)
    for m in mol.GetSubstructMatches(q, uniquify=False, maxMatches=100000):
        if pattern_anchor is None:
            if anchor in m: return True
        elif m[pattern_anchor]==anchor: return True
    return False
def ref_fg(mol, name, idx):
    c = fg.functional_group_config[name]
    is_fg=False
    for p,g in zip(c.pattern,c.groups):
        if ref_match(mol, idx, p) and ref_match(mol, idx, g): is_fg=True
    if is_fg:
        for ap in c.anti_pattern:
            if ref_match(mol, idx, ap): return False
    return is_fg
df = pd.read_csv('/repo/Data/Validation_set/validation_set.csv')
mols=set()
for r in df['reaction'].tolist()[:1500]:
    for s in r.replace('>>','.').split('.'):
        mols.add(s)
mols=sorted(mols)
print(len(mols))
t=time.time(); n=0; dis=Counter(); ex=[]
for s in mols[:1500]:
    m = Chem.MolFromSmiles(s)
    if m is None or m.GetNumAtoms()>40: continue
    for a in m.GetAtoms():
        if a.GetSymbol() in ('C','H'): continue
        for name in fg.functional_group_config:
            got = fg.is_functional_group(m, name, a.GetIdx()); exp = ref_fg(m, name, a.GetIdx()); n+=1
            if got!=exp:
                dis[name,got,exp]+=1
                if len(ex)<15: ex.append((s,a.GetIdx(),name,got,exp))
print(n, time.time()-t, dis); 
for e in ex: print(e)
# small ring probes
for s,i,name in [("C1OCO1",1,"acetal"),("Oc1cccc2cccc2c1",0,"phenol"),("OC1=CC=CC=CC1=O",0,"enol")]:
    m=Chem.MolFromSmiles(s); print(s, name, fg.is_functional_group(m,name,i), ref_fg(m,name,i))
