import warnings, logging, sys, random, time
warnings.filterwarnings("ignore")
import pandas as pd
from rdkit import Chem, RDLogger; RDLogger.DisableLog('rdApp.*')
import synrbl.SynUtils.functional_group_utils as fg
from synrbl.SynChemImputer.molecule_standardizer import MoleculeStandardizer
from collections import Counter
from oracle import comp
df = pd.read_csv('/repo/Data/Validation_set/validation_set.csv')
mols=set()
for r in df['reaction'].tolist():
    for s in r.replace('>>','.').split('.'): mols.add(s)
mols=sorted(mols); rng=random.Random(2); rng.shuffle(mols)
# C16 invariance
n=0; bad=0; t=time.time()
for s in mols[:300]:
    m=Chem.MolFromSmiles(s)
    if m is None or m.GetNumAtoms()>35: continue
    perm=list(range(m.GetNumAtoms())); rng.shuffle(perm)   # new index i holds old atom perm[i]
    m2=Chem.RenumberAtoms(m, perm); inv={old:new for new,old in enumerate(perm)}
    for a in m.GetAtoms():
        if a.GetSymbol() in ('C','H'): continue
        for name in fg.functional_group_config:
            x=fg.is_functional_group(m,name,a.GetIdx()); y=fg.is_functional_group(m2,name,inv[a.GetIdx()]); n+=1
            if x!=y:
                bad+=1
                if bad<5: print('INVAR', s, a.GetIdx(), name, x, y)
print('C16 invariance', n, bad, time.time()-t)
# C20 composition on returned
ms=MoleculeStandardizer(); c=Counter(); t=time.time()
for s in mols[:3000]:
    m=Chem.MolFromSmiles(s)
    if m is None: continue
    for a in m.GetAtoms(): a.SetAtomMapNum(0)
    s0=Chem.MolToSmiles(m)
    try: o=ms(s0)
    except Exception as e:
        c['exc',type(e).__name__]+=1
        if c['exc',type(e).__name__]<3: print('EXC', s0, e)
        continue
    changed = Chem.CanonSmiles(s0)!=o
    ok = comp(o)==comp(s0)
    c['changed' if changed else 'same', ok]+=1
    if not ok and c['x']<5: c['x']+=1; print('COMP', s0, o)
    try:
        if ms(o)!=o: c['nonidem']+=1; print('NONIDEM', s0, o, ms(o)) if c['nonidem']<4 else None
    except Exception as e: c['exc2']+=1
print(c, time.time()-t)
