import warnings, logging, sys, random, time
warnings.filterwarnings("ignore"); logging.disable(logging.CRITICAL)
from rdkit import Chem, RDLogger; RDLogger.DisableLog('rdApp.*')
from synrbl import Balancer
import synrbl.SynMCSImputer.SubStructure.mcs_process as mp
import synrbl.SynMCSImputer.MissingGraph.find_graph_dict as fgd
from oracle import *
rx = ["CC(=O)OCC>>CC(=O)O", "COC(=O)c1ccccc1>>OC(=O)c1ccccc1", "CCO>>CC=O", "CC(=O)Nc1ccccc1>>Nc1ccccc1", "CCOC(=O)CC>>CCC(=O)O"]
b = Balancer(n_jobs=1)
def key(r): return (r['reaction'], r['solved'], r.get('solved_by'), r.get('confidence'), tuple(r.get('rules') or ()), r.get('issue') or '')
base = b.rebalance(rx, output_dict=True)
A = mp.MCSMissingGraphAnalyzer
orig = A.fit
calls=[]
plan = {('0',0):'raise', ('1',1):'sleep', ('3',0):'sleep',('3',1):'sleep',('3',2):'sleep', ('4',2):'raise',('4',0):'raise',('4',1):'raise'}
def patched(data_dict, **kw):
    ci = {('MCIS',True):0, ('MCIS',False):1}.get((kw.get('method'), kw.get('RingMatchesRingOnly')), 2)
    act = plan.get((data_dict['id'], ci))
    calls.append((data_dict['id'],ci,act))
    if act=='raise': raise RuntimeError("injected")
    if act=='sleep': time.sleep(0.25)
    return orig(data_dict, **kw)
A.fit = staticmethod(patched)
for c in b.mcs_search.conditions: c['job_timeout']=0.1
t=time.time()
out = b.rebalance(rx, output_dict=True)
print(time.time()-t, len(out))
for r0,r in zip(base,out): print(key(r)==key(r0), key(r), balanced(r['reaction']))
print(calls)
time.sleep(0.5)
