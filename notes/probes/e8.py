import warnings, logging, io, contextlib, json, gzip
warnings.filterwarnings("ignore")
from rdkit import Chem, RDLogger; RDLogger.DisableLog('rdApp.*')
from synrbl.SynRuleImputer.rule_data_manager import RuleImputeManager
from oracle import comp
with contextlib.redirect_stdout(io.StringIO()):
    m = RuleImputeManager()
    m.add_entry("H2O","O")
    m.add_entry("NH4+","[NH4+]")
    m.add_entry("U","[U]")
    m.add_entry("Cl-","[Cl-]")
    try: m.add_entry("water","O")
    except ValueError as e: print("dup smiles rejected")
    try: m.add_entry("H2O","[OH2]")
    except ValueError as e: print("dup formula rejected")
    m.add_entry("water2","[OH2]")   # same molecule different spelling
    r = m.add_entries([{"formula":"x","smiles":"xx"},{"formula":"H2O","smiles":"OO"},{"formula":"CO2","smiles":"O=C=O"}])
import sys
print(r, file=sys.stderr)
for e in m.database: print(e, file=sys.stderr)
# shipped DBs
import importlib.resources, synrbl.SynRuleImputer
with importlib.resources.files(synrbl.SynRuleImputer).joinpath('rules_manager.json.gz').open('r') as f: r1=json.load(f)
r2=json.load(open('/repo/Data/Rules/automated_rules.json.gz'))
print(len(r1), len(r2), file=sys.stderr)
pt=Chem.GetPeriodicTable()
for name,db in (("manager",r1),("auto",r2)):
    for e in db:
        c,q = comp(e['smiles'])
        true = {pt.GetElementSymbol(z):n for z,n in c.items()}; true['Q']=q
        if true != e['Composition']: print(name,"MISMATCH", e, true, file=sys.stderr)
    from collections import Counter
    print(name, "dup formula", [k for k,v in Counter(e['formula'] for e in db).items() if v>1], "dup smiles", [k for k,v in Counter(e['smiles'] for e in db).items() if v>1], file=sys.stderr)
print(r2, file=sys.stderr)
