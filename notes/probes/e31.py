import warnings, logging
warnings.filterwarnings("ignore"); logging.disable(logging.CRITICAL)
from rdkit import RDLogger; RDLogger.DisableLog('rdApp.*')
from synrbl import Balancer
from oracle import *
b=Balancer(n_jobs=1)
for r in ["CCCO.O>>CCC(=O)O", "CCCO.O.O>>CCC(=O)O.O", "c1ccccc1CO.O>>c1ccccc1C(=O)O", "CCCO.OO>>CCC(=O)O", "CCCO.O=O>>CCC(=O)O", "CCCO.[O-][Cl+3]([O-])([O-])[O-]>>CCC(=O)O"]:
    o=b.rebalance(r, output_dict=True)[0]
    print(r, '=>', o['solved'], o.get('solved_by'), balanced(o['reaction']), o['reaction'][:200], o.get('issue'))
