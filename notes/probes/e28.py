import warnings, logging, sys, time, json
warnings.filterwarnings("ignore"); logging.disable(logging.CRITICAL)
import pandas as pd
from rdkit import Chem, RDLogger; RDLogger.DisableLog('rdApp.*')
from collections import Counter
from synrbl.SynMCSImputer.structure import CompoundSet
from synrbl.SynMCSImputer.merge import merge
exec(open('e10.py').read().split("df = pd.read_csv")[0].split("def cut")[1].join(["def cut",""]) if False else "")
from e10cut import cut
expand = {r['name']: r['compound'] for r in json.load(open('/repo/synrbl/SynMCSImputer/expand_rules.json'))}
mergebond = {r['name']: r.get('bond') for r in json.load(open('/repo/synrbl/SynMCSImputer/merge_rules.json'))}
def heavy(m): return Counter(a.GetSymbol() for a in m.GetAtoms() if a.GetAtomicNum()>1)
df = pd.read_csv('/repo/Data/Validation_set/validation_set.csv')
mols=set()
for r in df['expected_reaction'].dropna().tolist()[:600]:
    for s in r.replace('>>','.').split('.'): mols.add(s)
mols=sorted(mols)
res=Counter(); ex={}
t=time.time()
for s in mols[:400]:
    m=Chem.MolFromSmiles(s)
    if m is None: continue
    for a in m.GetAtoms(): a.SetAtomMapNum(0)
    src=Chem.MolToSmiles(m); m=Chem.MolFromSmiles(src)
    for bond in m.GetBonds():
        if bond.IsInRing() or bond.GetBondType()!=Chem.BondType.SINGLE: continue
        try: frs=cut(m,bond)
        except Exception: continue
        for (s1,i1,a1,o1) in frs:
            cs=CompoundSet(); c1=cs.add_compound(s1, src_mol=src); c1.add_boundary(i1, neighbor_index=o1)
            try:
                cm=merge(cs)
            except Exception as e:
                res['EXC',type(e).__name__,str(e)[:50]]+=1; continue
            rules=[r.name for r in cm.rules]
            er=[r for r in rules if r in expand]; mr=[r for r in rules if r in mergebond]
            out=Chem.MolFromSmiles(cm.smiles)
            frag=Chem.MolFromSmiles(s1)
            # expected
            if not er:
                exp=Chem.MolToSmiles(frag)
            else:
                comp_=expand[er[0]]; cmol=Chem.MolFromSmiles(comp_['smiles'])
                bondname = mergebond[mr[-1]] if mr else None
                if bondname is None:
                    exp=Chem.CanonSmiles(s1+'.'+comp_['smiles'])
                else:
                    rw=Chem.RWMol(Chem.CombineMols(frag,cmol))
                    ai=i1; bi=frag.GetNumAtoms()+comp_['index']
                    order={'single':Chem.BondType.SINGLE,'double':Chem.BondType.DOUBLE}[bondname]; k={'single':1,'double':2}[bondname]
                    for idx in (ai,bi):
                        at=rw.GetAtomWithIdx(idx); h=at.GetTotalNumHs(); at.SetNoImplicit(True); at.SetNumExplicitHs(max(0,h-k))
                    rw.AddBond(ai,bi,order)
                    try:
                        mm=rw.GetMol(); Chem.SanitizeMol(mm); exp=Chem.MolToSmiles(mm)
                    except Exception as e: exp='SANFAIL'
            got=Chem.MolToSmiles(out) if out else None
            ok = got==Chem.CanonSmiles(exp) if exp!='SANFAIL' else None
            key=(ok, tuple(rules))
            res[key]+=1
            if ok is not True and key not in ex: ex[key]=(src,s1,i1,got,exp)
            if len(cm.boundaries)!=0: res['open boundary']+=1
print(time.time()-t)
for k,v in res.most_common(): print(v,k,ex.get(k,''))
