import warnings, logging, sys, time, logging
warnings.filterwarnings("ignore"); logging.disable(logging.CRITICAL)
import pandas as pd
from rdkit import Chem, RDLogger; RDLogger.DisableLog('rdApp.*')
from collections import Counter
from synrbl.SynMCSImputer.structure import CompoundSet
from synrbl.SynMCSImputer.merge import merge
def cut(mol, bond):
    a,b = bond.GetBeginAtomIdx(), bond.GetEndAtomIdx()
    rw = Chem.RWMol(mol)
    rw.RemoveBond(a,b)
    for i in (a,b):
        at = rw.GetAtomWithIdx(i)
        at.SetNumExplicitHs(at.GetTotalNumHs()+1); at.SetNoImplicit(True)
    m = rw.GetMol(); Chem.SanitizeMol(m)
    frags = Chem.GetMolFrags(m)
    out=[]
    for f in frags:
        anchor = a if a in f else b
        other = b if anchor==a else a
        # make sub-mol
        em = Chem.RWMol(m)
        for i in sorted(set(range(m.GetNumAtoms()))-set(f), reverse=True): em.RemoveAtom(i)
        sub = em.GetMol()
        sub_idx = sorted(f).index(anchor)
        smi = Chem.MolToSmiles(sub)
        order = list(sub.GetPropsAsDict(True,True)['_smilesAtomOutputOrder'])
        new_idx = order.index(sub_idx)
        out.append((smi,new_idx,anchor,other))
    return out
df = pd.read_csv('/repo/Data/Validation_set/validation_set.csv')
mols=set()
for r in df['expected_reaction'].dropna().tolist()[:600]:
    for s in r.replace('>>','.').split('.'): mols.add(s)
mols=sorted(mols)
res=Counter(); ex={}
t=time.time(); n=0
for s in mols[:400]:
    m=Chem.MolFromSmiles(s)
    if m is None: continue
    for a in m.GetAtoms(): a.SetAtomMapNum(0)
    src = Chem.MolToSmiles(m); m = Chem.MolFromSmiles(src)
    can = Chem.MolToSmiles(m, isomericSmiles=False)
    for bond in m.GetBonds():
        if bond.IsInRing() or bond.GetBondType()!=Chem.BondType.SINGLE: continue
        n+=1
        try:
            (s1,i1,a1,o1),(s2,i2,a2,o2) = cut(m,bond)
        except Exception as e:
            res['cut-fail']+=1; continue
        cs = CompoundSet()
        c1 = cs.add_compound(s1, src_mol=src); c1.add_boundary(i1, neighbor_index=o1)
        c2 = cs.add_compound(s2, src_mol=src); c2.add_boundary(i2, neighbor_index=o2)
        try:
            cm = merge(cs)
            out = Chem.MolToSmiles(Chem.MolFromSmiles(cm.smiles), isomericSmiles=False)
            rules = tuple(r.name for r in cm.rules)
            ok = out==can
            key=('ok' if ok else 'DIFF', rules)
            res[key]+=1
            if not ok and key not in ex: ex[key]=(src, bond.GetBeginAtom().GetSymbol(), bond.GetEndAtom().GetSymbol(), s1,i1,s2,i2,cm.smiles)
        except Exception as e:
            key=('EXC', type(e).__name__, str(e)[:60]); res[key]+=1
            if key not in ex: ex[key]=(src,s1,i1,s2,i2)
print(n, time.time()-t)
for k,v in res.most_common(): print(v,k, ex.get(k,''))
