import warnings, logging, sys, time, random
warnings.filterwarnings("ignore"); logging.disable(logging.CRITICAL)
import pandas as pd
from rdkit import Chem, RDLogger; RDLogger.DisableLog('rdApp.*')
from synrbl import Balancer
df = pd.read_csv('/repo/Data/Validation_set/validation_set.csv')
rx = df['reaction'].tolist()
random.seed(5)
sample = random.sample(rx, 80)
b = Balancer(n_jobs=1)
def key(r): return (r['reaction'], r['solved'], r.get('solved_by'), r.get('confidence'), tuple(r.get('rules') or ()), r.get('issue') or '')
t=time.time()
whole = b.rebalance(sample, output_dict=True); print('whole', time.time()-t)
t=time.time()
alone = [b.rebalance([s], output_dict=True)[0] for s in sample]; print('alone', time.time()-t)
perm = list(range(len(sample))); random.shuffle(perm)
stats={}
shuf = b.rebalance([sample[i] for i in perm], output_dict=True, batch_size=7, stats=stats)
inv = {p:i for i,p in enumerate(perm)}
n=0
for i,s in enumerate(sample):
    k1,k2,k3 = key(whole[i]), key(alone[i]), key(shuf[inv[i]])
    if not (k1==k2==k3):
        n+=1; print(i, s[:80]); print('  ',k1); print('  ',k2); print('  ',k3)
print('diffs', n, stats)
b16 = Balancer(n_jobs=16)
t=time.time(); w16 = b16.rebalance(sample, output_dict=True); print('n16', time.time()-t)
print('n16 diffs', sum(key(a)!=key(c) for a,c in zip(whole,w16)))
