import time, json, logging, warnings
warnings.filterwarnings("ignore")
logging.disable(logging.CRITICAL)
from synrbl import Balancer
import cProfile, pstats
b = Balancer(n_jobs=1)
rxns = ["CC(=O)OCC>>CC(=O)O", "CCCO>>CCC(=O)O", "CCO>>CCOC"]
b.rebalance(rxns[:1])
pr = cProfile.Profile(); pr.enable()
t=time.time()
res = b.rebalance(rxns, output_dict=True)
print("run", time.time()-t)
pr.disable()
pstats.Stats(pr).sort_stats("cumulative").print_stats(25)
