import time, json, logging, warnings, sys, pickle
warnings.filterwarnings("ignore")
logging.disable(logging.CRITICAL)
import pandas as pd
from synrbl import Balancer
df = pd.read_csv('/repo/Data/Validation_set/validation_set.csv')
rx = df['reaction'].tolist()
b = Balancer(n_jobs=16, batch_size=500)
t=time.time(); stats={}
res = b.rebalance(rx, output_dict=True, stats=stats)
print("run", time.time()-t, len(res), len(rx), stats)
pickle.dump((rx,res,stats), open('val_run.pkl','wb'))
