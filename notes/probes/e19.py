import warnings, logging, sys, random, time
warnings.filterwarnings("ignore"); logging.disable(logging.CRITICAL)
from rdkit import Chem, RDLogger; RDLogger.DisableLog('rdApp.*')
from synrbl import Balancer
import synrbl.SynMCSImputer.SubStructure.mcs_process as mp
import synrbl.SynMCSImputer.MissingGraph.find_graph_dict as fgd
from oracle import *
rx = ["CC(=O)OCC>>CC(=O)O", "COC(=O)c1ccccc1>>OC(=O)c1ccccc1", "CCO>>CC=O", "CC(=O)Nc1ccccc1>>Nc1ccccc1", "CCOC(=O)CC>>CCC(=O)O"]
b = Balancer(n_jobs=1)
def key(r): return (r['reaction'], r['solved'], r.get('solved_by'), r.get('confidence'), tuple(r.get('rules') or ()), r.get('issue') or '')
base = b.rebalance(rx, output_dict=True)
for r in base: print(key(r))
orig = mp.single_mcs
calls=[]
plan = {('0',0):'raise', ('1',1):'sleep', ('3',0):'sleep',('3',1):'sleep',('3',2):'sleep', ('4',2):'raise'}
cond_index = {}
def patched(data_dict, mcs_data, **kw):
    ci = next(i for i,c in enumerate(b.mcs_search.conditions) if all(kw.get(k)==v for k,v in c.items() if k!='job_timeout'))
    act = plan.get((data_dict['id'], ci))
    calls.append((data_dict['id'],ci,act))
    if act=='raise': raise RuntimeError("injected")
    if act=='sleep': time.sleep(0.25)
    return orig(data_dict, mcs_data, **kw)
mp.single_mcs = patched
for c in b.mcs_search.conditions: c['job_timeout']=0.1
t=time.time()
try:
    out = b.rebalance(rx, output_dict=True)
    print(time.time()-t, len(out))
    for r0,r in zip(base,out): print(key(r)==key(r0), key(r), balanced(r['reaction']))
except Exception as e:
    import traceback; traceback.print_exc()
print(calls)
