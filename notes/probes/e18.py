import warnings, logging, sys, random, pickle, time
warnings.filterwarnings("ignore"); logging.disable(logging.CRITICAL)
import pandas as pd
from rdkit import Chem, RDLogger; RDLogger.DisableLog('rdApp.*')
from collections import Counter
from synrbl import Balancer
from synrbl.SynUtils.chem_utils import remove_atom_mapping
from oracle import *
df = pd.read_csv('/repo/Data/Validation_set/validation_set.csv')
exp = df['expected_reaction'].dropna().tolist()
print(len(exp))
bal = [e for e in exp if balanced(e) is True]
print('balanced per oracle', len(bal), 'not', len(exp)-len(bal))
b = Balancer(n_jobs=8)
t=time.time()
out = b.rebalance(bal, output_dict=True)
print(time.time()-t, len(out))
c=Counter()
for e,o in zip(bal,out):
    ok = o['solved'] and o.get('solved_by')=='input-balanced' and o['reaction']==remove_atom_mapping(e)==o['input_reaction']
    c[ok]+=1
    if not ok and c[False]<6: print(e[:150], o)
print(c)
# converse on unbalanced inputs
rx,res,stats = pickle.load(open('val_run.pkl','rb'))
c2=Counter()
for r in res:
    if r.get('solved_by')=='input-balanced':
        c2[balanced(r['input_reaction']), r['reaction']==r['input_reaction']]+=1
print(c2)
# not balanced examples in expected
nb=[e for e in exp if balanced(e) is not True][:5]
for e in nb: print(balanced(e), e[:200])
