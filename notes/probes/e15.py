import warnings, logging, sys, random, pickle
warnings.filterwarnings("ignore"); logging.disable(logging.CRITICAL)
from rdkit import Chem, RDLogger; RDLogger.DisableLog('rdApp.*')
from synrbl import Balancer
from oracle import *
from collections import Counter
rx,res,stats = pickle.load(open('val_run.pkl','rb'))
random.seed(3)
idx = [i for i,r in enumerate(res) if r.get('solved_by') in ('rule-based','input-balanced') ]
idx = random.sample(idx, 200)
def respell(side, rng, mode):
    ms = side.split('.')
    rng.shuffle(ms)
    out=[]
    for s in ms:
        m = Chem.MolFromSmiles(s)
        if mode=='random': out.append(Chem.MolToSmiles(m, doRandom=True))
        elif mode=='kekule':
            Chem.Kekulize(m, clearAromaticFlags=True); out.append(Chem.MolToSmiles(m, kekuleSmiles=True))
        elif mode=='maps':
            for a in m.GetAtoms(): a.SetAtomMapNum(rng.randint(1,99))
            out.append(Chem.MolToSmiles(m))
        elif mode=='allH': out.append(Chem.MolToSmiles(m, allHsExplicit=True))
    return '.'.join(out)
b = Balancer(n_jobs=1)
base_in = [res[i]['input_reaction'] for i in idx]
variants=[]; meta=[]
rng = random.Random(7)
for k,i in enumerate(idx):
    r,p = res[i]['input_reaction'].split('>>')
    for mode in ('random','kekule','maps','allH'):
        try:
            variants.append(respell(r,rng,mode)+'>>'+respell(p,rng,mode)); meta.append((k,mode))
        except Exception as e: print('gen fail', mode, e)
out_base = b.rebalance(base_in, output_dict=True)
out_var = b.rebalance(variants, output_dict=True)
print(len(out_base), len(base_in), len(out_var), len(variants))
def added(o):
    ir,ip = o['input_reaction'].split('>>'); orr,op = o['reaction'].split('>>')
    return (mols(orr)-mols(ir), mols(op)-mols(ip))
n=0; c=Counter()
if len(out_var)==len(variants):
    for (k,mode),ov in zip(meta,out_var):
        ob = out_base[k]
        same = (ob['solved'],ob.get('solved_by'))==(ov['solved'],ov.get('solved_by')) and added(ob)==added(ov)
        c[mode, same]+=1
        if not same and n<12:
            n+=1; print(mode, ob['input_reaction'][:90], '|', ov['input_reaction'][:90]); print('   ', ob['solved'],ob.get('solved_by'), added(ob)); print('   ', ov['solved'],ov.get('solved_by'), added(ov), ov.get('issue'))
print(c)
