import warnings, logging, sys, random, pickle, time, io, contextlib
warnings.filterwarnings("ignore"); logging.disable(logging.CRITICAL)
import pandas as pd
from rdkit import Chem, RDLogger; RDLogger.DisableLog('rdApp.*')
from rdkit.Chem import Descriptors
from collections import Counter
from synrbl import Balancer
from synrbl.SynUtils.chem_utils import remove_atom_mapping
from oracle import *
def closed(rxn):
    for s in rxn.replace('>>','.').split('.'):
        m=Chem.MolFromSmiles(s)
        if m is None or Descriptors.NumRadicalElectrons(m)>0: return False
    return True
df = pd.read_csv('/repo/Data/Validation_set/validation_set.csv')
exp = [remove_atom_mapping(e) for e in df['expected_reaction'].dropna().tolist()]
bal = [e for e in exp if balanced(e) is True and closed(e) and len(e)<200]
rng = random.Random(int(sys.argv[1]) if len(sys.argv)>1 else 1)
rng.shuffle(bal)
cases=[]
for e in bal[:1500]:
    r,p = e.split('>>'); rs=r.split('.'); ps=p.split('.')
    mode = rng.choice(['dropP','dropR','dropBoth','dup','rev','spect'])
    if mode=='dropP' and len(ps)>1: ps.pop(rng.randrange(len(ps)))
    elif mode=='dropR' and len(rs)>1: rs.pop(rng.randrange(len(rs)))
    elif mode=='dropBoth' and len(ps)>1 and len(rs)>1: ps.pop(rng.randrange(len(ps))); rs.pop(rng.randrange(len(rs)))
    elif mode=='dup': ps.append(rng.choice(ps))
    elif mode=='rev': rs,ps = ps,rs; (ps.pop(rng.randrange(len(ps))) if len(ps)>1 else None)
    elif mode=='spect':
        sp = rng.choice(['[Na+].[Cl-]','OO','[H][H]','[U+4]','O=[U](=O)(Cl)Cl','[K+].[OH-]','CC(C)(C)OO','[2H]O[2H]','[NH4+].[Cl-]'])
        rs.append(sp); 
        if rng.random()<0.5: ps.append(sp)
        if len(ps)>1 and rng.random()<0.5: ps.pop(0)
    cases.append(('.'.join(rs)+'>>'+'.'.join(ps), mode))
b = Balancer(n_jobs=16, batch_size=300)
t=time.time()
with contextlib.redirect_stderr(io.StringIO()) as err:
    out = b.rebalance([c[0] for c in cases], output_dict=True)
print(time.time()-t, len(out), len(cases))
if len(out)!=len(cases): print(err.getvalue()[-3000:]); sys.exit()
cnt=Counter()
for (inp,mode),o in zip(cases,out):
    cnt[mode, o['solved'], o.get('solved_by')]+=1
    probs=[]
    if o['solved']:
        if balanced(o['reaction']) is not True: probs.append('C01-unbalanced')
        if o.get('issue') not in (None,'') and o.get('issue')==o.get('issue'): probs.append('C03-solved-issue')
    else:
        if o['reaction']!=o['input_reaction']: probs.append('C03-notreverted')
        if not o.get('issue'): probs.append('C03-noissue')
    try:
        ir,ip=o['input_reaction'].split('>>'); orr,op=o['reaction'].split('>>')
        if (mols(ir)-mols(orr)) or (mols(ip)-mols(op)): probs.append('C02-lost')
    except Exception as e: probs.append('C02-exc')
    if o['input_reaction']!=inp: probs.append('input-changed')
    if balanced(inp) and o.get('solved_by')!='input-balanced': probs.append('C04')
    if o.get('solved_by')=='input-balanced' and not balanced(inp): probs.append('C04conv')
    for p_ in probs:
        cnt['PROB',p_]+=1
        if cnt['PROB',p_]<=4: print(p_, mode, '\n   IN ', inp[:300], '\n   OUT', o['reaction'][:400], o.get('solved_by'), o.get('issue'))
for k,v in sorted(cnt.items(), key=str): print(k,v)
