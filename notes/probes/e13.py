import numpy as np, math
c = np.round(np.array([0.1561234],dtype=np.float32),3)[0]
print(type(c), repr(c), c.item())
t = math.nextafter(c.item(), 1.0)
print(t, c >= t, c.item() >= t, c >= c.item(), c>=math.nextafter(c.item(),0))
t2 = c.item()+1e-9
print(c>=t2, c.item()>=t2)
