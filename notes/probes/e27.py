import warnings, logging, sys, math, re
warnings.filterwarnings("ignore"); logging.disable(logging.CRITICAL)
from rdkit import RDLogger; RDLogger.DisableLog('rdApp.*')
from synrbl import Balancer
rx = ["CC(=O)OCC>>CC(=O)O", "COC(=O)c1ccccc1>>OC(=O)c1ccccc1", "CCO>>CC=O", "CC(=O)Nc1ccccc1>>Nc1ccccc1", "CCO>>CCO", "CCO>>CCOC", "CCOC(=O)CC>>CCC(=O)O"]
def key(r): return (r['reaction'], r['solved'], r.get('solved_by'), r.get('confidence'), tuple(r.get('rules') or ()), r.get('issue') or '')
base = Balancer(n_jobs=1, confidence_threshold=0).rebalance(rx, output_dict=True)
confs=[r['confidence'] for r in base if r.get('confidence') is not None]
ts=[0,1]
for c in confs: ts += [c, math.nextafter(c,2), math.nextafter(c,-1), c+0.001, c-0.001]
bad=0
for t in ts:
    try:
        out = Balancer(n_jobs=1, confidence_threshold=t).rebalance(rx, output_dict=True)
    except Exception as e:
        print('EXC', t, e); continue
    if len(out)!=len(rx): print('LOST rows at t', t, len(out)); bad+=1; continue
    for b,o in zip(base,out):
        if b.get('solved_by')=='mcs-based':
            exp = b['confidence']>=t
            ok = o['confidence']==b['confidence'] and o['solved']==exp and o['reaction']==b['reaction']
            if not exp:
                m=re.search(r'([\d.]+)%', o.get('issue') or '')
                ok = ok and m is not None and abs(float(m.group(1))-100*t)<=0.0051
            if not ok: bad+=1; print('BAD', t, key(b), key(o))
        elif key(b)!=key(o): bad+=1; print('BAD other', t, key(b), key(o))
print(len(ts), bad)
