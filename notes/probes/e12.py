import warnings, logging, sys, time, random, os, json, glob
warnings.filterwarnings("ignore"); logging.disable(logging.CRITICAL)
from rdkit import Chem, RDLogger; RDLogger.DisableLog('rdApp.*')
from synrbl import Balancer
rx = ["CC(=O)OCC>>CC(=O)O", "CCO>>CC=O", "CCO>>CCO", "COC(=O)c1ccccc1>>OC(=O)c1ccccc1"]
def run(th, cache=True, bs=2, rx=rx):
    b = Balancer(n_jobs=1, confidence_threshold=th, cache=cache, cache_dir='cdir', batch_size=bs)
    st={}
    try:
        r = b.rebalance(rx, output_dict=True, stats=st)
    except Exception as e:
        return 'EXC %r'%e, None
    return [(x['solved'], x.get('confidence'), x.get('issue')) for x in r], st
print(run(0))
print(run(0.9))
print(run(0.9, cache=False))
files = glob.glob('cdir/*.cache'); print(files)
# truncate one
data = open(files[0]).read()
open(files[0],'w').write(data[:len(data)//2])
print(run(0))
open(files[0],'w').write('')
print(run(0))
os.remove(files[0])
# float/np types in cache json?
print(run(0))
print(open(glob.glob('cdir/*.cache')[0]).read()[:300])
