import warnings, logging, sys, random, pickle, time
warnings.filterwarnings("ignore"); logging.disable(logging.CRITICAL)
import pandas as pd
from rdkit import Chem, RDLogger; RDLogger.DisableLog('rdApp.*')
from rdkit.Chem import Descriptors
from collections import Counter
from synrbl import Balancer
from synrbl.SynUtils.chem_utils import remove_atom_mapping
from oracle import *
def closed(rxn):
    for s in rxn.replace('>>','.').split('.'):
        m=Chem.MolFromSmiles(s)
        if m is None or Descriptors.NumRadicalElectrons(m)>0: return False
    return True
df = pd.read_csv('/repo/Data/Validation_set/validation_set.csv')
exp = df['expected_reaction'].dropna().tolist()
bal = [e for e in exp if balanced(e) is True and closed(e)]
print('balanced closed-shell', len(bal))
b = Balancer(n_jobs=8)
out = b.rebalance(bal, output_dict=True)
c=Counter()
for e,o in zip(bal,out):
    ok = o['solved'] and o.get('solved_by')=='input-balanced' and o['reaction']==remove_atom_mapping(e)==o['input_reaction']
    c[ok]+=1
    if not ok and c[False]<6: print(e[:250], '\n    ', {k:(v[:250] if isinstance(v,str) else v) for k,v in o.items()})
print(c)
