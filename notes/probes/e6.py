import warnings, logging
warnings.filterwarnings("ignore")
from rdkit import Chem, RDLogger; RDLogger.DisableLog('rdApp.*')
from synrbl.SynUtils.chem_utils import normalize_smiles, wc_similarity, remove_atom_mapping
print("C17")
a="CCCO.CCOC>>CC"; b="CCOC.CCCO>>CC"
print(normalize_smiles(a), normalize_smiles(b))
for m in ["pathway","ecfp","ecfp_inv"]:
    print(m, wc_similarity(a,b,m), wc_similarity(b,a,m))
print(normalize_smiles(normalize_smiles(a))==normalize_smiles(a))
# different number of molecules
print(wc_similarity("CCO>>CC=O", "CCO.O>>CC=O.O"))
try: print(wc_similarity("CCO>>CC=O", "CCO>>CC=O.[Na+]"))
except Exception as e: print("EXC", repr(e))
print("C15")
for s in ["c1:c:c:c:c:c:1", "[CH3:1][OH:2]", "C[C@H:3](O)N", "[13CH3:1]O", "[Cl-:1].[Na+:2]", "[nH:1]1cccc1", "[CH2:1]=[CH2:2]", "[C:1]#[C:2]", "[SiH3:1]C", "[OH2:1]", "[PH:1](C)(C)(C)C", "C%10CCCC%10", "[C:1]1CC1","[NH4+:12]", "[O-:1][N+:2](=O)c1ccccc1", "[Se:1]", "[B:1](O)O", "[BH3:1]", "[SH:1]C", "[C@@:1](F)(Cl)(Br)I", "[H:1][H:2]", "C[Cu:1]C", "[S:1](=O)(C)C", "[N:1](C)(C)C", "[P:1](C)(C)C", "[I:1]C", "[CH:1](C)(C)C"]:
    o = remove_atom_mapping(s)
    m1 = Chem.MolFromSmiles(s); m2 = Chem.MolFromSmiles(o)
    if m1:
        for a_ in m1.GetAtoms(): a_.SetAtomMapNum(0)
    c1 = Chem.MolToSmiles(m1) if m1 else None; c2 = Chem.MolToSmiles(m2) if m2 else None
    print(s, '->', o, 'OK' if c1==c2 else 'DIFF %s vs %s'%(c1,c2))
