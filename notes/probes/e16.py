import warnings, logging, sys, random, pickle, time
warnings.filterwarnings("ignore"); logging.disable(logging.CRITICAL)
from rdkit import Chem, RDLogger; RDLogger.DisableLog('rdApp.*')
from collections import Counter
from synrbl.mcs_search import MCSSearch
from synrbl.SynProcessor import CheckCarbonBalance
rx,res,stats = pickle.load(open('val_run.pkl','rb'))
random.seed(11)
idx=[i for i,r in enumerate(res) if r.get('solved_by') not in ('rule-based','input-balanced')]
idx=random.sample(idx,150)
data=[]
for i in idx:
    r=res[i]['input_reaction']; a,b=r.split('>>')
    e={'id':str(len(data)),'reaction':r,'solved':False,'reactants':a,'products':b}
    e['carbon_balance_check']=CheckCarbonBalance([e],rsmi_col='reaction',symbol='>>',atom_type='C').check_carbon_balance()[0]['carbon_balance_check']
    data.append(e)
data.insert(3, dict(data[0], id='x', solved=True))
t=time.time()
out = MCSSearch('id', n_jobs=1).find(data)
print(time.time()-t)
c=Counter()
for e in out:
    if e['solved']: c['solved-skip', 'mcs' in e]+=1; continue
    m=e['mcs']
    if m is None: c['none', e['issue']]+=1; continue
    side = e['products'] if e['carbon_balance_check']=='reactants' else e['reactants']
    exp = Counter(Chem.CanonSmiles(s) for s in side.split('.'))
    got = Counter(Chem.CanonSmiles(s) for s in m['sorted_reactants'])
    c['multiset', exp==got]+=1
    if exp!=got: print(e['reaction'][:100], exp, got, m['issue'])
    c['lens', len(m['sorted_reactants'])==len(m['mcs_results'])]+=1
    for s,q in zip(m['sorted_reactants'], m['mcs_results']):
        mol=Chem.MolFromSmiles(s); qm=Chem.MolFromSmarts(q)
        ok = qm is not None and (qm.GetNumAtoms()==0 or mol.HasSubstructMatch(qm))
        c['contained',ok]+=1
        if not ok: print('NOT CONTAINED', s, q)
    c['id', m['id']==e['id']]+=1
print(c)
