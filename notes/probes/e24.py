import warnings, logging, sys, pickle
warnings.filterwarnings("ignore"); logging.disable(logging.CRITICAL)
from rdkit import RDLogger; RDLogger.DisableLog('rdApp.*')
from synrbl import Balancer
rx,res0,stats0 = pickle.load(open('val_run.pkl','rb'))
for nj in (1,1,16):
    b=Balancer(n_jobs=nj)
    for k in range(3):
        o=b.rebalance(rx[13], output_dict=True)[0]; print(nj, o['issue'])
    o=b.rebalance(rx[10:16], output_dict=True)[3]; print(nj,'batch', o['issue'])
