import warnings, logging, sys, pickle
warnings.filterwarnings("ignore"); logging.disable(logging.CRITICAL)
from rdkit import RDLogger; RDLogger.DisableLog('rdApp.*')
from synrbl import Balancer
rx,res0,stats0 = pickle.load(open('val_run.pkl','rb'))
b=Balancer(n_jobs=1)
for lo,hi in ((13,14),(12,14),(0,14),(0,30),(5,20),(13,30)):
    o=b.rebalance(rx[lo:hi], output_dict=True)[13-lo]; print(lo,hi, o['issue'][60:140])
