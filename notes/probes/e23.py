import time, json, logging, warnings, sys, pickle
warnings.filterwarnings("ignore"); logging.disable(logging.CRITICAL)
import pandas as pd
import synrbl; print(synrbl.__file__)
from synrbl import Balancer
rx,res0,stats0 = pickle.load(open('val_run.pkl','rb'))
b = Balancer(n_jobs=16, batch_size=500)
t=time.time(); stats={}
res = b.rebalance(rx, output_dict=True, stats=stats)
print("run", time.time()-t, len(res), stats, stats==stats0)
def key(r): return (r['reaction'], r['solved'], r.get('solved_by'), r.get('confidence'), tuple(r.get('rules') or ()), r.get('issue') or '', r['input_reaction'])
d=[i for i,(a,c) in enumerate(zip(res0,res)) if key(a)!=key(c)]
print(len(d), d[:20])
for i in d[:6]: print(key(res0[i])); print(key(res[i]))
pickle.dump((rx,res,stats), open(sys.argv[1],'wb'))
