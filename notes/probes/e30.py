import warnings, logging, sys, random, time, io, contextlib
warnings.filterwarnings("ignore"); logging.disable(logging.CRITICAL)
from rdkit import Chem, RDLogger; RDLogger.DisableLog('rdApp.*')
from collections import Counter
from synrbl import Balancer
from oracle import *
R = ["C","CC","CCC","c1ccccc1","CC(C)","C1CCCCC1","COc1ccc(cc1)","FC(F)(F)C","ClCC","N#CC","c1ccncc1","CC(=O)NC","[13CH3]","C[C@H](F)"]
cases=[]
for r in R:
    for r2 in R[:4]:
        cases += [ (f"{r}CO>>{r}C=O",'1alc>ald'), (f"{r}CO>>{r}C(=O)O",'1alc>acid'), (f"{r}C=O>>{r}C(=O)O",'ald>acid'),
                   (f"{r}C(O){r2}>>{r}C(=O){r2}",'2alc>ket'), (f"{r}C(=O){r2}>>{r}C(O){r2}",'ket>alc'), (f"{r}C=O>>{r}CO",'ald>alc'),
                   (f"{r}C(=O)O{r2}>>{r}CO",'ester>alc'), (f"{r}C(=O)O>>{r}CO",'acid>alc'), (f"{r}C(=O)N>>{r}CN",'amide>amine'),
                   (f"{r}C(=O)Cl>>{r}CO",'acylcl>alc'), (f"{r}C#N>>{r}CN",'nitrile>amine'), (f"{r}[N+](=O)[O-]>>{r}N",'nitro>amine'),
                   (f"{r}C=C{r2}>>{r}CC{r2}",'alkene>alkane'), (f"{r}S{r2}>>{r}S(=O){r2}",'sulfide>sulfoxide'), (f"{r}C=C>>{r}C1CO1",'epox'),
                   (f"{r}CO.[Na]>>{r}C[O-].[Na+]",'Na'), (f"{r}C(=O)O.[Na+].[OH-]>>{r}C(=O)[O-].[Na+]",'salt'), (f"{r}C(=O)[O-].[K+].Cl>>{r}C(=O)O",'acidify')]
cases = list(dict.fromkeys(cases))
print(len(cases))
b = Balancer(n_jobs=16, batch_size=400)
with contextlib.redirect_stderr(io.StringIO()):
    out = b.rebalance([c[0] for c in cases], output_dict=True)
print(len(out))
cnt=Counter()
for (inp,kind),o in zip(cases,out):
    cnt[kind, o['solved'], o.get('solved_by')]+=1
    probs=[]
    if o['solved'] and balanced(o['reaction']) is not True: probs.append('C01')
    if not o['solved'] and (o['reaction']!=o['input_reaction'] or not o.get('issue')): probs.append('C03')
    ir,ip=o['input_reaction'].split('>>'); orr,op=o['reaction'].split('>>')
    if (mols(ir)-mols(orr)) or (mols(ip)-mols(op)): probs.append('C02')
    for p_ in probs:
        cnt['PROB',p_,kind]+=1
        if cnt['PROB',p_,kind]<=2: print(p_, kind, inp, '=>', o['reaction'][:300], o.get('solved_by'))
for k,v in sorted(cnt.items(), key=str): print(k,v)
