import warnings, logging, io, contextlib, sys
warnings.filterwarnings("ignore"); logging.disable(logging.CRITICAL)
from synrbl import Balancer
from rdkit import RDLogger; RDLogger.DisableLog('rdApp.*')
b = Balancer(n_jobs=1)
def run(rx, **kw):
    err = io.StringIO()
    with contextlib.redirect_stderr(err):
        try:
            r = b.rebalance(rx, output_dict=True, **kw)
        except Exception as e:
            return 'EXC %r' % e
    return r
good = ["CCO>>CCO", "CC(=O)OCC>>CC(=O)O", "CCO>>CC=O"]
for bad in ["CCO>>C(C)(C)(C)(C)C", "CCO", "CCO>CC>CC=O", ">>", "", "CCO>>", ">>CCO", "xx>>yy", "CCO>>CC=O>>C", None, float('nan')]:
    rx = good[:1]+[bad]+good[1:]
    r = run(rx)
    print(repr(bad), '->', len(r) if isinstance(r,list) else r, [x['input_reaction'] for x in r] if isinstance(r,list) else '')
    r = run(rx, batch_size=1)
    print('   bs=1', len(r) if isinstance(r,list) else r, [x['input_reaction'] for x in r] if isinstance(r,list) else '')
