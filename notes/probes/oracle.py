from rdkit import Chem
from collections import Counter
pt = Chem.GetPeriodicTable()
def comp(smi):
    """independent composition: Counter of atomic numbers (incl. all H) + ('Q', charge); None if unparsable"""
    m = Chem.MolFromSmiles(smi)
    if m is None: return None
    c = Counter()
    q = 0
    for a in m.GetAtoms():
        c[a.GetAtomicNum()] += 1
        c[1] += a.GetTotalNumHs()   # implicit+explicit H not in graph
        q += a.GetFormalCharge()
    if c[1]==0: del c[1]
    return c, q
def side_comp(side):
    tot=Counter(); q=0
    if side=="": return tot,0
    for s in side.split("."):
        r=comp(s)
        if r is None: return None
        tot+=r[0]; q+=r[1]
    return tot,q
def balanced(rxn):
    parts=rxn.split(">>")
    if len(parts)!=2: return None
    a=side_comp(parts[0]); b=side_comp(parts[1])
    if a is None or b is None: return None
    return a==b
def mols(side):
    return Counter(Chem.CanonSmiles(s) for s in side.split(".")) if side else Counter()
